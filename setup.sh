#!/bin/bash
# Offline build of the harness (both the plain and the -race binary) against /repo.
export GOFLAGS=-mod=mod GOPROXY=off GOSUMDB=off GOTOOLCHAIN=local
cd "$(dirname "$0")" || exit 1
mkdir -p bin evidence
go build -tags verif -o bin/vrun ./cmd/vrun || exit 1
go build -tags verif -race -o bin/vrun-race ./cmd/vrun || exit 1
echo setup ok
