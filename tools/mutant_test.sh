#!/bin/bash
# tools/mutant_test.sh <patch.diff> <tier> <id> [<id>...]
# Applies a breaking patch to /repo's working tree, runs the named checks, and
# restores /repo. Prints one line per check: CAUGHT / MISSED / ERROR.
patch="$1"; tier="$2"; shift 2
cd /repo || exit 2
if [ -n "$(git status --porcelain)" ]; then echo "/repo not clean"; exit 2; fi
if ! git apply "$patch"; then echo "patch does not apply"; exit 2; fi
bak=$(mktemp -d /tmp/evid-bak.XXXXXX)
cp -r /verif/evidence/. "$bak"/
# evidence written while a seeded change is applied is not evidence about /repo: put the old files back
trap 'git -C /repo checkout -q -- . ; git -C /repo clean -fdq -- . >/dev/null 2>&1; rm -rf /verif/evidence; mkdir -p /verif/evidence; cp -r "$bak"/. /verif/evidence/; rm -rf "$bak"' EXIT
cd /verif
for id in "$@"; do
  out=$(./vcheck "$id" "$tier" 2>&1); rc=$?
  sig=$(echo "$out" | grep -A1 "^VIOLATION" | grep signature | head -3 | tr '\n' ';')
  case $rc in
    1) echo "CAUGHT $id ($tier) $sig" ;;
    0) echo "MISSED $id ($tier) $(echo "$out" | tail -1)" ;;
    *) echo "ERROR  $id rc=$rc $(echo "$out" | tail -3 | tr '\n' ' ')" ;;
  esac
done
