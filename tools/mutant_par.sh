#!/bin/bash
# tools/mutant_par.sh <patch.diff> <tier> <id> [<id>...]
# Like mutant_test.sh but never touches /repo or /verif/evidence: the patch is applied to a
# scratch git worktree of /repo (VERIF_REPO) and the run writes its evidence under a scratch
# VERIF_ROOT. Safe to run several at once. Prints CAUGHT / MISSED / ERROR per check.
patch="$1"; tier="$2"; shift 2
V="$(cd "$(dirname "$0")/.." && pwd)"
wt=$(mktemp -d /tmp/mrepo.XXXXXX); root=$(mktemp -d /tmp/mroot.XXXXXX)
cleanup() { git -C /repo worktree remove --force "$wt" >/dev/null 2>&1; rm -rf "$wt" "$root"; tag=$(echo "$wt" | md5sum | cut -c1-8); rm -f "$V"/bin/*-alt-$tag* "$V"/bin/alt-$tag.*; }
trap cleanup EXIT
rmdir "$wt"
git -C /repo worktree add -q --detach "$wt" HEAD || { echo "worktree failed"; exit 2; }
git -C "$wt" apply "$patch" || { echo "patch does not apply"; exit 2; }
cp "$V/known-findings.json" "$root/"; ln -s "$V/golden" "$root/golden"
for id in "$@"; do
  out=$(cd "$V" && VERIF_REPO="$wt" VERIF_ROOT="$root" ./vcheck "$id" "$tier" 2>&1); rc=$?
  sig=$(echo "$out" | grep -A1 "^VIOLATION" | grep signature | head -3 | tr '\n' ';')
  case $rc in
    1) echo "CAUGHT $id ($tier) $sig" ;;
    0) echo "MISSED $id ($tier) $(echo "$out" | tail -1)" ;;
    *) echo "ERROR  $id rc=$rc $(echo "$out" | tail -3 | tr '\n' ' ')" ;;
  esac
done
