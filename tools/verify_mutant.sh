#!/bin/bash
# tools/verify_mutant.sh <worktree> <name> : extract patch from an agent's worktree, verify
# (builds, suite passes with it, demo fails with it and passes without it)
wt="$1"; name="$2"
export GOFLAGS=-mod=mod GOPROXY=off GOSUMDB=off GOTOOLCHAIN=local
cd "$wt" || exit 2
mkdir -p /tmp/pat
git diff -- . ':!*_test.go' > /tmp/pat/$name.diff
echo "patch: $(wc -l < /tmp/pat/$name.diff) lines, files: $(git diff --stat -- . ':!*_test.go' | tail -1)"
go build ./... && go build -tags verif ./... || { echo "BUILD FAILS"; exit 1; }
fails=$(go test -vet=off -count=1 -skip 'MutantDemo|ZZMutant' ./... 2>&1 | grep -E "^(FAIL|---)" | grep -v TestFrameCodecFuzz | tr '\n' ' ')
echo "suite with change (demo skipped): ${fails:-all ok}"
tags=""; grep -l "go:build verif" $(git ls-files --others --exclude-standard | grep _test.go) >/dev/null 2>&1 && tags="-tags verif"
d1=$(go test $tags -vet=off -count=1 -run 'MutantDemo|ZZMutant' ./... 2>&1 | grep -E "^(--- FAIL|FAIL|panic)" | head -3 | tr '\n' ' ')
echo "demo with change: ${d1:-PASSES (bad)}"
git diff > /tmp/pat/$name.full.diff
git checkout -q -- .
d2=$(go test $tags -vet=off -count=1 -run 'MutantDemo|ZZMutant' ./... 2>&1 | grep -E "^(--- FAIL|FAIL|panic)" | head -3 | tr '\n' ' ')
git apply /tmp/pat/$name.full.diff
echo "demo without change: ${d2:-passes}"
cd /repo && git apply --check /tmp/pat/$name.diff && echo "applies to /repo" || echo "DOES NOT APPLY to /repo"
