#!/bin/bash
# tools/run_all.sh <tier> [seed]  -- runs every registered check once, prints one line each
tier="${1:-quick}"; export VERIF_SEED="${2:-1}"
cd "$(dirname "$0")/.." || exit 2
for id in C01 C02 C03 C04 C05 C06 C07 C08 C09 C10 C11 C12 C13 C14 C15 C16 C17 C18 C19 C20; do
  s=$(date +%s.%N)
  out=$(./vcheck $id $tier 2>&1); rc=$?
  e=$(date +%s.%N)
  printf "%s rc=%d %5.1fs  %s\n" $id $rc $(echo "$e - $s" | bc) "$(echo "$out" | grep -E "^(C[0-9]+ (quick|thorough)|HARNESS|INCONCLUSIVE|KNOWN|VIOLATION)" | tail -2 | tr '\n' ' ' | cut -c1-220)"
done
