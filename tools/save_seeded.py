#!/usr/bin/env python3
# tools/save_seeded.py <ID> "<needs>" "<caught_by csv>" "<missed_by csv>"  : stores /tmp/mut/<ID> mutant into /verif/seeded/agent-<ID>
import sys, os, shutil, json, subprocess, glob
pid, needs, caught, missed = sys.argv[1:5]
src=f'/tmp/mut/{pid}'; dst=f'/verif/seeded/agent-{pid}'
os.makedirs(dst, exist_ok=True)
shutil.copy(f'/tmp/pat/agent-{pid}.diff', f'{dst}/patch.diff')
if os.path.exists(f'{src}/MUTANT.md'): shutil.copy(f'{src}/MUTANT.md', dst)
for f in glob.glob(f'{src}/**/zz_mutant_demo_test.go', recursive=True):
    rel=os.path.relpath(os.path.dirname(f), src)
    shutil.copy(f, f'{dst}/zz_mutant_demo_test.go.txt')
    demo_pkg=rel
json.dump(dict(property=pid, demo_pkg=demo_pkg, needs=needs, caught_by=[x for x in caught.split(',') if x], missed_by=[x for x in missed.split(',') if x],
  source='independent sub-agent given only the property text and a scratch worktree',
  verified='suite passes with the change (go test -vet=off -count=1 ./..., demo skipped); demo fails with the change and passes without it; then tools/mutant_test.sh <patch> quick <ids>'),
  open(f'{dst}/meta.json','w'), indent=1)
subprocess.run(['git','-C','/repo','worktree','remove','--force',src])
print('saved',dst)
