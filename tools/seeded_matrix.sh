#!/bin/bash
# tools/seeded_matrix.sh [tier] : every seeded change against the check of the property it breaks
tier="${1:-quick}"
cd "$(dirname "$0")/.." || exit 2
for d in seeded/*/; do
  n=$(basename $d)
  p=$(python3 -c "import json;print(json.load(open('$d/meta.json'))['property'])")
  printf "%-12s " $n
  tools/mutant_test.sh $PWD/$d/patch.diff $tier $p 2>&1 | cut -c1-170
done
