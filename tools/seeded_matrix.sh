#!/bin/bash
# tools/seeded_matrix.sh [tier] [jobs] : every seeded change against the check of the property
# it breaks, on scratch worktrees (tools/mutant_par.sh), <jobs> at a time (default 4)
tier="${1:-quick}"; jobs="${2:-4}"
cd "$(dirname "$0")/.." || exit 2
ls -d seeded/*/ | xargs -P "$jobs" -I{} bash -c '
  d={}; n=$(basename $d)
  p=$(python3 -c "import json;m=json.load(open(\"$d/meta.json\"));print(m.get(\"matrix_check\") or m[\"property\"])")
  if [ "$p" = "none" ]; then
    why=$(python3 -c "import json;m=json.load(open(\"$d/meta.json\"));print(\"NEUTRALISED (no longer breaks the property: \"+m[\"neutralised_by\"][:110]+\"...)\" if m.get(\"neutralised_by\") else \"NOT-CAUGHT (recorded in meta.json: outside the workloads of every check)\")")
    printf "%-12s %s\n" $n "$why"; exit 0; fi
  r=$(tools/mutant_par.sh $PWD/$d/patch.diff '"$tier"' $p 2>&1 | cut -c1-170 | tr "\n" " ")
  printf "%-12s %s\n" $n "$r"
' | sort
