#!/usr/bin/env python3
# tools/mk_prompt2.py <round> <ID>:<category>... : worktrees /tmp/mut/<ID> of /repo HEAD and prompt files with
# (a) the property text, (b) a REQUIRED trigger category, (c) one line per idea earlier sub-agents already
# produced for this property (taken from the tables of DESIGN.md - the agents' own ideas, nothing about the checks)
import json, sys, subprocess, os, re
props={json.loads(l)['id']:json.loads(l) for l in open('/verif/properties.jsonl')}
tmpl=open('/verif/tools/mutant_prompt.txt').read()
design=open('/verif/DESIGN.md').read()
cats={
 'interleave':'a particular INTERLEAVING of goroutines (two or more API calls overlapping in a specific way)',
 'crash':'a CRASH or POWER LOSS at a particular point (possibly followed by specific further operations and another reopen)',
 'fault':'an I/O ERROR (failed write / fsync / create / delete / metadata commit / read) at a particular point, after which the program carries on',
 'multistep':'a MULTI-STEP SEQUENCE of at least three different API operations in a particular order (no crash, no fault, single goroutine)',
 'input':'an UNUSUAL INPUT (a boundary value, a size class, a particular field combination) on an otherwise plain call sequence',
 'twosite':'TWO COOPERATING CODE SITES that each look harmless alone: your diff must touch two different functions (preferably in two files), and reverting either half alone must make the demo pass',
}
os.makedirs('/tmp/mut', exist_ok=True)
for a in sys.argv[2:]:
    pid,cat=a.split(':')
    wt=f'/tmp/mut/{pid}'
    subprocess.run(['git','-C','/repo','worktree','add','-q','--detach',wt,'HEAD'],check=True)
    p=props[pid]
    taken=[]
    for m in re.finditer(r'^\| (?:agent|r\d+)-'+pid+r'(?: / r\d+-C\d+)?: ([^|]+)\|', design, re.M):
        taken.append('- '+m.group(1).strip())
    extra=f"\n\nREQUIRED KIND OF TRIGGER for this assignment: the breakage must need {cats[cat]}. A change of another kind is not wanted.\n\nIdeas ALREADY TAKEN for this property by earlier assignments (do not repeat these or close variants; find something in a different part of the code or a different mechanism):\n"+'\n'.join(taken)+"\n"
    txt=tmpl.format(wt=wt,pid=pid,title=p['title'],statement=p['statement'],quant=p['quantifier']['text'])
    txt=txt.replace('\nYOUR TASK:', extra+'\nYOUR TASK:',1)
    open(f'/tmp/mut/prompt_{pid}.txt','w').write(txt)
    print(pid, cat, len(taken))
