#!/usr/bin/env python3
# tools/mk_prompt.py <ID>... : creates /tmp/mut/<ID> worktrees of /repo HEAD and prompt files
import json, sys, subprocess, os
props={json.loads(l)['id']:json.loads(l) for l in open('/verif/properties.jsonl')}
tmpl=open('/verif/tools/mutant_prompt.txt').read()
os.makedirs('/tmp/mut', exist_ok=True)
for pid in sys.argv[1:]:
    wt=f'/tmp/mut/{pid}'
    subprocess.run(['git','-C','/repo','worktree','add','-q','--detach',wt,'HEAD'],check=True)
    p=props[pid]
    open(f'/tmp/mut/prompt_{pid}.txt','w').write(tmpl.format(wt=wt,pid=pid,title=p['title'],statement=p['statement'],quant=p['quantifier']['text']))
    print(pid)
