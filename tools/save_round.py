#!/usr/bin/env python3
# tools/save_round.py <round> <ID> "<change>" "<needs>" "<caught_by>" "<source note>" : stores the verified mutant of /tmp/mut/<ID>
# (patch from /tmp/pat/r<round>-<ID>.diff) as /verif/seeded/r<round>-<ID>/ and removes the scratch worktree
import sys, os, shutil, json, subprocess, glob
rnd, pid, change, needs, caught, source = sys.argv[1:7]
src=f'/tmp/mut/{pid}'; dst=f'/verif/seeded/r{rnd}-{pid}'
os.makedirs(dst, exist_ok=True)
shutil.copy(f'/tmp/pat/r{rnd}-{pid}.diff', f'{dst}/patch.diff')
if os.path.exists(f'{src}/MUTANT.md'): shutil.copy(f'{src}/MUTANT.md', dst)
pkgs=[]
for f in sorted(glob.glob(f'{src}/**/zz_mutant_demo*_test.go', recursive=True)):
    rel=os.path.relpath(os.path.dirname(f), src)
    shutil.copy(f, f'{dst}/{os.path.basename(f)}.txt')
    if rel not in pkgs: pkgs.append(rel)
json.dump(dict(property=pid, change=change, needs=needs, caught_by=caught, demo_pkgs=pkgs, source=source,
  verified='tools/verify_mutant.sh: builds with/without -tags verif, suite passes with the change (demo skipped), demo fails with it and passes without it; then tools/mutant_par.sh <patch> quick <ids>'),
  open(f'{dst}/meta.json','w'), indent=1)
subprocess.run(['git','-C','/repo','worktree','remove','--force',src])
shutil.rmtree(src, ignore_errors=True)
print('saved',dst)
