#!/usr/bin/env python3
"""Generates /verif/MANIFEST.json from the table below (keeps it schema-valid)."""
import json, subprocess, os
ROOT = os.path.dirname(os.path.dirname(os.path.abspath(__file__)))

def hook_commits():
    try:
        out = subprocess.check_output(["git", "-C", "/repo", "log", "--format=%h %s"], text=True)
        return [l.split()[0] for l in out.splitlines() if "verif" in l.lower() and "hook" in l.lower()]
    except Exception:
        return []

# id: (category, technique, level text, level note, engine, design_ref)
CHECKS = {
 "C01": ("fault_enumeration", "crash-image enumeration over simulated VFS + model-state oracle; strace trace replay of the production stack into power-loss images",
         "Every mutating I/O boundary of each generated workload is a crash point; for each, kill and power-loss images (subsets of un-fsynced 8-byte pieces, pending directory operations, file lengths; exhaustive for small pending sets in thorough) are recovered by the real wal+segment code and the whole observable state must equal a legal model state; nested to depth 2 (crash inside recovery / continuation). Workloads are sampled, crash points and image variants are enumerated. Second engine (trace replay): a child runs a workload on the production fs package and real BoltDB under strace with full write payloads; the parent rebuilds per-file durable/pending state from the trace, derives power-loss images at every syscall boundary (all / none / random subsets of the writes not yet followed by fsync, torn at 512-byte boundaries; every prefix of the pending directory operations), opens each with the production code and judges it against the acknowledgements seen in the trace - the only place BoltDB's own commit protocol and the metadata-DB initialisation are put under power loss.",
         "simfs crash model (calibrated from the production fs package); simmeta commits atomic+durable; harness model", "E1 crashsim", "4 C01"),
 "C02": ("fault_enumeration", "crash-chain enumeration (crash, recover, retry prefix, crash) + exact-state oracle",
         "As C01 with chains: after recovering from a torn batch the continuation re-submits a prefix of it (same sizes) so stale frames of the torn batch sit behind the new commit, then crashes again; low indexes and frame-shaped payloads; recovered state must equal one legal state exactly (nothing fabricated, torn or half-applied).",
         "same as C01", "E1 crashsim", "4 C02"),
 "C03": ("fault_enumeration", "crash-image enumeration + fixed usability continuation after every recovery; strace trace replay of the production stack into power-loss images (incl. first-Open metadata initialisation)",
         "After recovery of every crash image a fixed continuation (appends forcing rotation, head and tail truncation, stable set/get, clean reopen, append) must succeed and match the model; geometries where nearly every append seals the segment; in a third of the continuations the first write after recovery is a tail / head truncation, the retried interrupted truncation or a stable Set instead of an append.",
         "same as C01", "E1 crashsim", "4 C03"),
 "C04": ("fault_enumeration", "crash-image enumeration over truncation-heavy workloads + all-or-nothing oracle",
         "Crash at every boundary inside head/tail/all truncations and the appends that follow; recovered state must be the old or the new state exactly; unique entry ids distinguish generations at reused indexes.",
         "same as C01", "E1 crashsim", "4 C04"),
 "C13": ("fault_enumeration", "directory-listing invariant at quiescent points + online segment-ID monitor across crash generations",
         "After every acknowledged call of the golden run and after Open on every crash image the directory must hold exactly the files of segments in committed metadata; ID rules (never reused, never below a committed NextSegmentID, no Create of an uncommitted ID) are evaluated at every CommitState/Create over the whole lifetime of a directory including crash generations. Concurrent part: writer vs 2-5 readers under hook perturbation with the listing compared at quiescent points and no open handle allowed on an unlinked file; two pinned readers released in both orders; reader-pinning and failed-Create scripts.",
         "same as C01", "E1 crashsim", "4 C13"),
 "C05": ("exploration", "differential testing against a contiguous-log reference model after every step (exhaustive small-scope + random sequences)",
         "All sequences to a depth bound over a 20-template alphabet (incl. deletes with max = MaxUint64) for 12 (segment size, start index) geometries, plus seeded random sequences (some on the real filesystem with BoltDB); after every step the full observable state is compared with the model in the live WAL and in a reopened copy of the directory.",
         "harness reference model (README rules); index 0 never used", "E4 model", "4 C05"),
 "C12": ("exploration", "round-trip and aliasing monitors over generated logs, under the race detector",
         "Codec round-trips over varint/size/time boundary classes, decode-input overwrite test, WAL StoreLogs->GetLog round-trips in-process and after reopen, re-comparison of returned logs after concurrent later reads (pooled buffers recycled), and the custom-codec reopen matrix (reserved IDs refused, same codec reopens, foreign codec refused).",
         "Go race detector; simfs as the file system", "E4 model", "4 C12"),
 "C15": ("exploration", "boundary-size sweep with accept=>readable / reject=>unchanged oracle",
         "Entries whose encoded length is placed around 0, all padding residues, the 64KiB read buffer, the segment limit, larger than a segment and 64MiB+-k, in every batch position, several segment sizes; acknowledged entries must read back equal in-process and after reopen; refused calls must leave the log unchanged and usable; sizes <= 64MiB must not be refused.",
         "simfs as the file system; sizes above 64MiB+4096 and batches near 4GiB not exercised", "E4 model", "4 C15"),
 "C19": ("exploration", "differential copy check over store pairings with deterministic cancellation and fault wrappers",
         "CopyLogs over all pairings of WAL / raft-boltdb v2 / InmemStore for generated sources and batchBytes classes, with cancellation at the n-th call and injected destination errors; CopyStable with standard and extra keys; destination must equal the source (or be a prefix with the context's error), progress channel closed.",
         "raft.InmemStore and raft-boltdb behave as documented", "E4 model", "4 C19"),
 "C20": ("exploration", "recording metrics collector compared with model totals at quiescence (incl. sequences where Close beats a queued rotation); call-site execution gate",
         "Random operation sequences with a recording collector: every counter must equal the model's total at quiescence, every emitted name must be declared and must not panic the bundled AtomicCollector; verifier histories reach all verifier metrics; emitting call sites of the current source are enumerated and each must have been executed (else inconclusive).",
         "model totals derived independently (rotations from segment IDs consumed)", "E4 model", "4 C20"),
 "C16": ("exploration", "cluster simulation of the real verifier middleware with ground-truth judging of every delivered report",
         "Random 3-5 node histories (appends, checkpoints, replication with arbitrary batch splits and lags, leadership changes with conflicting suffixes, middleware restarts, head truncations, configuration/barrier entries) with no corruption injected; every delivered VerificationReport is judged against the harness's copy of what the checkpoint's leader held: a node holding the range exactly must not get ErrChecksumMismatch, a node lacking part must get ErrRangeMismatch.",
         "raft.InmemStore as the underlying store; the driver waits (by metric counts) for each report before touching the range again", "E4 vsim", "4 C16"),
 "C17": ("exploration", "single-fault injection into cluster histories (in flight / at rest, leader / follower; every bit position of the integer fields) with expected-detection oracle",
         "For every (site, field, position, restart-in-range) combination one mutation is injected inside a verified checkpoint range; the delivered report for that range must carry ErrChecksumMismatch and no report may blame in-flight corruption when the node wrote exactly the leader's entries.",
         "FNV-1a collisions not searched for; index-1 configuration entry excluded as documented", "E4 vsim", "4 C17"),
 "C18": ("exploration", "twin-store differential testing through the middleware; parked ReportFn schedules with count-based accounting",
         "Every call goes through verifier.LogStore over store A and directly to an identical store B; results and full stored contents compared after every call (only a leader checkpoint's empty Extensions may gain the 24-byte metadata; foreign Extensions on a checkpoint must be refused). ReportFn parked for 0-6 checkpoint arrivals incl. multi-checkpoint batches: StoreLogs must return; checkpoints_written == delivered + dropped_reports; the report following a drop must name the skipped range. Runs under the race detector.",
         "a StoreLogs that has not returned after 20s with its goroutine inside the verifier while the harness holds ReportFn is counted as blocked", "E4 vsim", "4 C18"),
 "C06": ("exploration", "history recording at the API boundary + single-writer version-interval linearizability check, cross-checked by porcupine; race detector",
         "One writer (appends with rotation, head/tail truncation, re-append of different content, base-index reset) against 2-8 readers under seeded hook perturbation, plus directed scripts parking a reader in every named window while each writer op kind completes; each read must equal the answer of a version that could have been current during its interval, errors other than not-found only for indexes an overlapping truncation removed, entries only after their batch's fsync completed; any race report with raft-wal frames is a violation.",
         "logical-clock tickets; Go race detector; porcupine v1.3.0", "E2 sched+hist", "4 C06"),
 "C10": ("fault_enumeration", "per-call fault injection (before/after effect, once/sticky, pairs) into re-executed workloads with applied-or-not candidate oracle; directed shrinking-retry and large-batch (70 KiB - 3 MiB) scripts",
         "Every VFS/MetaStore call of each workload's golden run is made to fail in turn (before effect; after effect for mutating calls; sticky; pairs in thorough); the workload continues with successful operations and a clean reopen; acknowledged entries must stay intact in-process and after reopen, failed appends invisible in-process, every failed call applied in full or not at all after reopen.",
         "simfs/simmeta fault model; refusal of further writes after a fault is not counted", "E1 faults", "4 C10"),
 "C11": ("exploration", "structure-aware corruption of valid directories (frame, index, header, metadata and codec length-prefix operators) under panic recovery, a VFS-enforced I/O step budget and an allocation bound",
         "11 file mutation operators and 11 metadata edits over generated directories, then Open + GetLog of everything + DumpLogs + Decode; never panic, never exceed the I/O step budget (logical 'loops forever') or the allocation bound; sealed segment missing / shorter than its header / foreign header must fail Open; a failed Open leaves no VFS handle or meta store open and, on a real directory with BoltDB, a second Open returns; Decode of structurally invalid encodings errors.",
         "single-threaded TotalAlloc deltas; 30s wall-clock watchdog only for pure-CPU loops", "E6 mutate", "4 C11"),
 "C14": ("exploration", "directed schedules through hook points (method x parking point x Close position; late-close scripts where a read spans a state replacement before Close; close-after-fault scripts where one VFS/MetaStore call failed earlier) + stress, outcome classification, race detector",
         "Every LogStore/StableStore method parked at every hook point on its path while Close runs (or Close parked while the method runs); results must be correct or ErrClosed, never panic / other error / deadlock (goroutine blocked inside raft-wal after everything was released); after Close: all methods ErrClosed, second Close nil, rotation goroutine exited, no handles open, reopen shows everything acknowledged.",
         "hook points added under build tag verif; 15s watchdog whose expiry is a violation only with the goroutine blocked inside raft-wal", "E2 sched", "4 C14"),
 "C08": ("exploration", "lock-step stable-map model + per-key porcupine register check under concurrency + SIGKILL of child processes on real BoltDB + strace trace replay into power-loss images of wal-meta.db",
         "Sequential Set/Get/SetUint64/GetUint64 over key and value classes interleaved with all log op templates and reopens (stable model and log bounds compared after every step, simfs and real BoltDB); concurrent per-key register histories on real BoltDB while a writer appends/rotates/truncates, checked by porcupine partitioned by key under the race detector; child processes doing Set+StoreLogs on the production stack killed with SIGKILL at random acknowledgement counts, three lifetimes per directory.",
         "BoltDB key limits; SIGKILL is process death (page cache survives); power loss of wal-meta.db is covered by the trace-replay part (writes not yet followed by fsync kept/dropped/torn at 512-byte boundaries) and the strace rule R7", "E4 model + E3 proc", "4 C08"),
 "C09": ("exploration", "independent README-only encoder/decoder: decode, compare with acknowledged batches, re-encode byte-for-byte; golden fixtures of the pinned commit",
         "After random workloads every segment file is decoded by internal/fmtspec (written from README.md only), compared with the harness's record of acknowledged batches and the codec's payloads, checked against file name and metadata (sealed <=> index frame, IndexStart, index offsets) and re-encoded byte-for-byte; the BoltDB record is read directly with bbolt for the documented JSON fields; 12 golden directories written by the pinned commit must open with identical contents and stay usable.",
         "README reading: first commit CRC includes the file header; bucket name wal-meta per the property anchors", "E5 fmtspec", "4 C09"),
 "C07": ("exploration", "syscall-trace monitor: production fs+BoltDB in child processes under strace, rules R1-R7 over the parsed trace with API/VFS markers, multi-lifetime with self-kills",
         "Child processes run the real fs and metadb packages under strace -f -y; the trace is parsed (unfinished/resumed joined, fd paths resolved) and checked: no append acknowledged with un-fsynced segment writes; directory fsynced between a segment's creation and its first acknowledged commit, across process lifetimes incl. killed ones; Delete = unlink + directory fsync; O_EXCL, preallocation, zero fill; wal-meta.db only via synced tmp + rename + directory fsync; hook events used for calibrating the simulated disk match the syscalls; no acknowledgement with un-synced metadata writes.",
         "kernel honours fsync; strace output complete (unparsed relevant lines make the run inconclusive)", "E3 proc+strace", "4 C07"),
}

NOT_YET = {}

def main():
    props = [json.loads(l) for l in open(os.path.join(ROOT, "properties.jsonl"))]
    checks = []
    na = []
    for p in props:
        pid = p["id"]
        if pid in CHECKS:
            cat, tech, text, note, engine, ref = CHECKS[pid]
            checks.append({
                "property_id": pid,
                "quick_cmd": f"./vcheck {pid} quick",
                "thorough_cmd": f"./vcheck {pid} thorough",
                "evidence_file": f"/verif/evidence/{pid}.json",
                "replay_cmd_template": f"./vcheck {pid} quick --replay {{path}}",
                "engine": engine,
                "level_claimed": {"category": cat, "text": text, "design_ref": "DESIGN.md section " + ref},
                "level_note": note,
                "technique": tech,
            })
        else:
            na.append({"property_id": pid, "reason": NOT_YET.get(pid, "check not built yet in this session (runtime-monitoring design exists in DESIGN.md section 4); not claimed until its monitor runs silently on the unchanged tree")})
    m = {
        "version": 1,
        "setup_cmd": "./setup.sh",
        "hooks": {
            "guard": "verif",
            "enable": "go build -tags verif (the vcheck wrapper always passes it); hook variables VerifHook in packages wal, segment, fs, metadb",
            "baseline_off_cmd": "cd /repo && GOFLAGS=-mod=mod go test -json -vet=off -count=1 -timeout 25m ./...",
            "source_commits": hook_commits(),
            "add_only": True,
        },
        "engines": [
            {"name": "E4 model", "path": "checks/c05.go c12.go c15.go c19.go c20.go, internal/model", "serves_properties": ["C05", "C12", "C15", "C19", "C20"], "kind_free_text": "sequential/differential monitors of the real code against small executable reference models"},
            {"name": "E4 vsim", "path": "internal/vsim, checks/c16.go c17.go c18.go", "serves_properties": ["C16", "C17", "C18"], "kind_free_text": "cluster of real verifier.LogStore middlewares over in-memory stores with harness ground truth, fault injection and parked callbacks"},
            {"name": "E2 sched+hist", "path": "internal/sched, internal/hist, checks/c06.go c14.go", "serves_properties": ["C06", "C14"], "kind_free_text": "hook-point scheduling (directed parking, seeded perturbation), API-boundary history recording, interval + porcupine checkers, race detector"},
            {"name": "E1 faults", "path": "checks/c10.go, internal/simfs", "serves_properties": ["C10"], "kind_free_text": "fault injection at every VFS/MetaStore call of re-executed workloads"},
            {"name": "E6 mutate", "path": "checks/c11.go", "serves_properties": ["C11"], "kind_free_text": "corruption operators over valid directories with budgets"},
            {"name": "E5 fmtspec", "path": "internal/fmtspec, checks/c09.go, golden/", "serves_properties": ["C09"], "kind_free_text": "independent implementation of the documented on-disk format + fixtures from the pinned commit"},
            {"name": "E3 proc+strace", "path": "internal/proc, checks/c07.go (and the SIGKILL part of checks/c08.go)", "serves_properties": ["C07", "C08"], "kind_free_text": "production stack in child processes, strace capture and parser, trace monitor, self-kill points"},
            {"name": "E3 trace replay", "path": "checks/replay.go, internal/proc", "serves_properties": ["C01", "C03", "C04", "C08"], "kind_free_text": "strace -xx capture of a child on real fs + BoltDB, replayed into durable/pending file and directory state; power-loss images opened by the production code and judged against the acknowledgements in the trace"},
            {"name": "E1 crashsim", "path": "internal/crashsim, internal/simfs", "serves_properties": ["C01", "C02", "C03", "C04", "C13"], "kind_free_text": "production wal+segment over a crash/fault-simulating VFS+MetaStore; snapshots at every I/O boundary; crash images; model oracle"},
        ],
        "checks": checks,
        "not_applicable": na,
        "notes": "All checks are runtime monitors over executions of the real code rebuilt from /repo with -tags verif. known-findings.json lists repaired defects (status fixed) and any recorded ones (status known).",
    }
    json.dump(m, open(os.path.join(ROOT, "MANIFEST.json"), "w"), indent=1)
    print("wrote MANIFEST.json with", len(checks), "checks,", len(na), "not_applicable")

if __name__ == "__main__":
    main()
