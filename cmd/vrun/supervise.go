package main

// Process supervision. The checks run the library in-process; a panic on a
// goroutine the library started itself (the background rotation) cannot be
// recovered by any monitor and takes every monitor down with it. So the check
// runs in a child of this process; if the child dies with a Go panic / fatal error
// whose origin - the first frame of the panicking goroutine outside the Go runtime
// and third-party modules - is library code, that is reported as a violation of the
// property being checked (no property holds of a run in which the library crashed
// the process under a valid workload), with the crash text as the replay case. A
// crash whose origin is harness code stays what it is: a harness error (exit 2).

import (
	"bufio"
	"fmt"
	"io"
	"os"
	"os/exec"
	"os/signal"
	"path/filepath"
	"regexp"
	"strconv"
	"strings"
	"syscall"
	"time"

	"verif/internal/evid"
)

var frameFileRe = regexp.MustCompile(`^\t(\S+\.go):(\d+)`)

// crashOrigin analyses a Go crash dump. It returns the kind line ("panic: ..."),
// the function and file of the origin frame, and whether that origin is library code.
func crashOrigin(text string, repoDir string) (kind, fn, file string, library, found bool) {
	lines := strings.Split(text, "\n")
	start := -1
	for i, l := range lines {
		if strings.HasPrefix(l, "panic: ") || strings.HasPrefix(l, "fatal error: ") {
			kind = l
			start = i
			break
		}
	}
	if start < 0 {
		return
	}
	// the first goroutine block after the panic line is the crashing goroutine
	g := -1
	for i := start; i < len(lines); i++ {
		if strings.HasPrefix(lines[i], "goroutine ") && strings.HasSuffix(lines[i], ":") {
			g = i
			break
		}
	}
	if g < 0 {
		return
	}
	for i := g + 1; i+1 < len(lines) && lines[i] != ""; i++ {
		m := frameFileRe.FindStringSubmatch(lines[i+1])
		if m == nil {
			continue
		}
		f := m[1]
		fnLine := lines[i]
		i++
		switch {
		case strings.HasPrefix(f, repoDir+"/"):
			return kind, fnLine, f, true, true
		case strings.Contains(f, "/verif/") || strings.HasPrefix(fnLine, "verif/") || strings.HasPrefix(fnLine, "main."):
			return kind, fnLine, f, false, true
		}
		// runtime, standard library, third-party module: keep walking towards the caller
	}
	return
}

func supervise(id, tier string, seed int64, level string) int {
	exe, err := os.Executable()
	if err != nil {
		return -1
	}
	crashLog := filepath.Join(evid.Root, "evidence", "crash-"+id+".log")
	os.MkdirAll(filepath.Dir(crashLog), 0o755)
	lf, err := os.Create(crashLog)
	if err != nil {
		return -1
	}
	cmd := exec.Command(exe, os.Args[1:]...)
	cmd.Env = append(os.Environ(), "VERIF_SUPERVISED=1")
	cmd.Stdin = os.Stdin
	cmd.Stdout = os.Stdout
	pr, pw := io.Pipe()
	cmd.Stderr = pw
	done := make(chan struct{})
	go func() {
		defer close(done)
		r := bufio.NewReaderSize(pr, 1<<16)
		buf := make([]byte, 1<<16)
		var kept int64
		for {
			n, err := r.Read(buf)
			if n > 0 {
				os.Stderr.Write(buf[:n])
				if kept < 8<<20 {
					lf.Write(buf[:n])
					kept += int64(n)
				}
			}
			if err != nil {
				return
			}
		}
	}()
	cmd.SysProcAttr = &syscall.SysProcAttr{Pdeathsig: syscall.SIGKILL}
	sigs := make(chan os.Signal, 4)
	signal.Notify(sigs, syscall.SIGQUIT, syscall.SIGTERM, syscall.SIGINT)
	if err := cmd.Start(); err != nil {
		signal.Stop(sigs)
		return -1
	}
	go func() {
		for s := range sigs {
			cmd.Process.Signal(s) // e.g. the QUIT of a watchdog: the child prints its goroutine dump
		}
	}()
	// global watchdog: a check that does not finish at all (a library call that never
	// returns on a goroutine without its own watchdog) is stopped with QUIT so that the
	// dump shows where; generous, and never a verdict by itself
	limit := 45 * time.Minute
	if tier != "quick" {
		limit = 8 * time.Hour
	}
	if v := os.Getenv("VERIF_WATCHDOG_S"); v != "" {
		if n, err := strconv.Atoi(v); err == nil && n > 0 {
			limit = time.Duration(n) * time.Second
		}
	}
	timedOut := false
	wd := time.AfterFunc(limit, func() {
		timedOut = true
		cmd.Process.Signal(syscall.SIGQUIT)
		time.AfterFunc(20*time.Second, func() { cmd.Process.Kill() })
	})
	runErr := cmd.Wait()
	wd.Stop()
	signal.Stop(sigs)
	pw.Close()
	<-done
	lf.Close()
	code := 0
	if runErr != nil {
		code = 2
		if ee, ok := runErr.(*exec.ExitError); ok {
			code = ee.ExitCode()
		}
	}
	if code == 0 || code == 1 {
		os.Remove(crashLog)
		return code
	}
	b, _ := os.ReadFile(crashLog)
	repo := os.Getenv("VERIF_REPO")
	if repo == "" {
		repo = "/repo"
	}
	if timedOut {
		// where is the check's main goroutine? Blocked inside the library => for the
		// properties that are about never hanging (C11, C14) that is the violation
		main := ""
		for _, g := range strings.Split(string(b), "\n\n") {
			if strings.HasPrefix(g, "goroutine 1 ") {
				main = g
			}
		}
		inLib := strings.Contains(main, repo+"/") && (id == "C11" || id == "C14")
		if inLib {
			c := evid.New(id, tier, seed, level)
			c.Rule("process supervision only: the check did not finish within the global watchdog", "crashes", "crash_sites")
			c.Count("crashes", 1)
			c.Distinct("crash_sites", "timeout")
			c.Distinct("crash_sites", "main goroutine blocked in library")
			if len(main) > 6000 {
				main = main[:6000]
			}
			c.Violation(id+":process-hang", fmt.Sprintf("the check did not finish within %v; its main goroutine is blocked inside the library", limit), map[string]any{"stack": main})
			return c.Finish()
		}
		fmt.Printf("HARNESS-ERROR property=%s the check did not finish within %v and was stopped (dump: %s)\n", id, limit, crashLog)
		return 2
	}
	kind, fn, file, lib, found := crashOrigin(string(b), repo)
	if !found || !lib {
		// not a library crash: harness error, killed, out of memory ... - leave the log for inspection
		fmt.Printf("HARNESS-ERROR property=%s the check's process exited with code %d (crash log: %s)\n", id, code, crashLog)
		if code < 2 {
			code = 2
		}
		return code
	}
	c := evid.New(id, tier, seed, level)
	c.Rule("process supervision only: the check's process died before it could write its own evidence", "crashes", "crash_sites")
	c.Count("crashes", 1)
	c.Distinct("crash_sites", fn)
	c.Distinct("crash_sites", kind)
	excerpt := string(b)
	if i := strings.Index(excerpt, kind); i >= 0 {
		excerpt = excerpt[i:]
	}
	if len(excerpt) > 6000 {
		excerpt = excerpt[:6000]
	}
	fnShort := fn
	if i := strings.LastIndex(fnShort, "("); i > 0 {
		fnShort = fnShort[:i]
	}
	c.Violation(id+":process-crash:"+filepath.Base(fnShort), fmt.Sprintf("the library took the process down while the check's workload ran: %s at %s (%s)", kind, fnShort, file),
		map[string]any{"crash": excerpt, "args": os.Args[1:], "note": "re-run the check with the same VERIF_SEED to reproduce; schedule-dependent crashes may need several runs"})
	c.Sample(map[string]any{"crash_kind": kind, "origin": fnShort})
	return c.Finish()
}
