// vrun runs one property check: vrun -id C01 -tier quick
package main

import (
	"flag"
	"fmt"
	"os"
	"runtime/pprof"
	"strconv"
	"time"

	"verif/checks"
	"verif/internal/evid"
)

func main() {
	if len(os.Args) > 2 && os.Args[1] == "-child" {
		f, ok := checks.Children[os.Args[2]]
		if !ok {
			fmt.Println("unknown child", os.Args[2])
			os.Exit(2)
		}
		f(os.Args[3:])
		return
	}
	id := flag.String("id", "", "property id")
	tier := flag.String("tier", "quick", "quick|thorough")
	replay := flag.String("replay", "", "replay file")
	flag.Parse()
	if t := os.Getenv("VERIF_TIER"); t != "" && *tier == "" {
		*tier = t
	}
	seed := int64(1)
	if s := os.Getenv("VERIF_SEED"); s != "" {
		if v, err := strconv.ParseInt(s, 10, 64); err == nil {
			seed = v
		}
	}
	ck, ok := checks.Registry[*id]
	if !ok {
		fmt.Printf("HARNESS-ERROR unknown property %q\n", *id)
		os.Exit(2)
	}
	if os.Getenv("VERIF_SUPERVISED") == "" {
		if code := supervise(*id, *tier, seed, ck.Level); code >= 0 {
			os.Exit(code)
		}
		// could not start a child: run unsupervised
	}
	c := evid.New(*id, *tier, seed, ck.Level)
	if *replay != "" {
		c.Extra("replay_of", *replay)
		c.Replay = *replay
	}
	if pf := os.Getenv("VERIF_CPUPROFILE"); pf != "" {
		f, _ := os.Create(pf)
		pprof.StartCPUProfile(f)
		defer pprof.StopCPUProfile()
	}
	if pf := os.Getenv("VERIF_MEMPROFILE"); pf != "" {
		go func() {
			for {
				time.Sleep(30 * time.Second)
				if f, err := os.Create(pf); err == nil {
					pprof.WriteHeapProfile(f)
					f.Close()
				}
			}
		}()
	}
	ck.Run(c)
	if ck.Race {
		c.CollectRaces()
	}
	code := c.Finish()
	pprof.StopCPUProfile()
	os.Exit(code)
}
