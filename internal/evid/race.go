package evid

import (
	"fmt"
	"os"
	"path/filepath"
	"regexp"
	"strings"
)

var raceLogPath = regexp.MustCompile(`log_path=(\S+)`)
var frameRe = regexp.MustCompile(`^\s+(github\.com/hashicorp/raft-wal[^\s(]*)\(`)

// CollectRaces reads the race detector's log files (GORACE log_path=...) written
// so far by this process and records one violation per distinct pair of
// innermost raft-wal frames. Reports without a raft-wal frame are counted but
// not attributed to the library.
func (c *Ctx) CollectRaces() {
	m := raceLogPath.FindStringSubmatch(os.Getenv("GORACE"))
	if m == nil {
		c.Extra("race_detector", "GORACE log_path not set; race reports (if any) went to stderr")
		return
	}
	files, _ := filepath.Glob(m[1] + ".*")
	total, attributed := 0, 0
	for _, f := range files {
		b, err := os.ReadFile(f)
		if err != nil {
			continue
		}
		for _, block := range strings.Split(string(b), "==================") {
			if !strings.Contains(block, "WARNING: DATA RACE") {
				continue
			}
			total++
			var frames []string
			seen := map[string]bool{}
			for _, line := range strings.Split(block, "\n") {
				if fm := frameRe.FindStringSubmatch(line); fm != nil && !seen[fm[1]] && len(frames) < 4 {
					seen[fm[1]] = true
					frames = append(frames, strings.TrimPrefix(fm[1], "github.com/hashicorp/raft-wal"))
				}
			}
			if len(frames) == 0 {
				continue
			}
			attributed++
			head := block
			if len(head) > 1800 {
				head = head[:1800]
			}
			c.Violation(c.ID+":data-race:"+strings.Join(frames, ","), "race detector report with raft-wal frames: "+fmt.Sprint(frames), map[string]any{"report": head})
		}
	}
	c.Extra("race_reports_total", total)
	c.Extra("race_reports_with_raftwal_frames", attributed)
	c.Extra("race_detector", "on")
}
