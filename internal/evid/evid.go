// Package evid collects what a check observed, decides the exit code and writes
// evidence/<id>.json (EVIDENCE.schema.json) and replay files.
package evid

import (
	"crypto/sha1"
	"encoding/hex"
	"encoding/json"
	"fmt"
	"os"
	"path/filepath"
	"sort"
	"strings"
	"sync"
	"time"
)

// Root is the /verif directory (overridable for tests of the harness itself).
var Root = func() string {
	if r := os.Getenv("VERIF_ROOT"); r != "" {
		return r
	}
	return "/verif"
}()

const distinctCap = 400000

// Finding is one entry of known-findings.json.
type Finding struct {
	Property    string `json:"property"`
	Status      string `json:"status"` // "known" or "fixed"
	Signature   string `json:"signature"`
	Commit      string `json:"commit,omitempty"`
	Description string `json:"description"`
}

type violation struct {
	Sig    string
	Desc   string
	Replay string
	Known  bool
	Count  int
}

// Ctx is the per-run collector. All methods are safe for concurrent use.
type Ctx struct {
	ID    string
	Tier  string
	Seed  int64
	Level string
	// Replay is the path of a replay file when the check is asked to re-run one case.
	Replay string

	mu           sync.Mutex
	start        time.Time
	counts       map[string]int64
	distinct     map[string]map[string]struct{}
	samples      []any
	maxSamples   int
	viol         map[string]*violation
	violOrder    []string
	inconclusive []string
	assumptions  []string
	rule         string
	evalKey      string
	distinctKey  string
	extra        map[string]any
	known        []Finding
	notes        []string
}

func New(id, tier string, seed int64, level string) *Ctx {
	c := &Ctx{ID: id, Tier: tier, Seed: seed, Level: level, start: time.Now(),
		counts: map[string]int64{}, distinct: map[string]map[string]struct{}{},
		viol: map[string]*violation{}, maxSamples: 6, extra: map[string]any{}}
	c.known = LoadKnown()
	return c
}

func LoadKnown() []Finding {
	b, err := os.ReadFile(filepath.Join(Root, "known-findings.json"))
	if err != nil {
		return nil
	}
	var f struct {
		Findings []Finding `json:"findings"`
	}
	if json.Unmarshal(b, &f) != nil {
		return nil
	}
	return f.Findings
}

// Rule sets the coverage.rule text and which counters feed evaluations and
// distinct_nontrivial.
func (c *Ctx) Rule(rule, evalCounter, distinctSet string) {
	c.mu.Lock()
	c.rule, c.evalKey, c.distinctKey = rule, evalCounter, distinctSet
	c.mu.Unlock()
}

// DistinctKey returns the name of the set that feeds distinct_nontrivial.
func (c *Ctx) DistinctKey() string { c.mu.Lock(); defer c.mu.Unlock(); return c.distinctKey }

func (c *Ctx) Assume(s ...string) {
	c.mu.Lock()
	c.assumptions = append(c.assumptions, s...)
	c.mu.Unlock()
}

func (c *Ctx) Count(key string, n int64) {
	c.mu.Lock()
	c.counts[key] += n
	c.mu.Unlock()
}

func (c *Ctx) Get(key string) int64 {
	c.mu.Lock()
	defer c.mu.Unlock()
	return c.counts[key]
}

func (c *Ctx) Max(key string, v int64) {
	c.mu.Lock()
	if v > c.counts[key] {
		c.counts[key] = v
	}
	c.mu.Unlock()
}

// Distinct adds member to the named set.
func (c *Ctx) Distinct(set, member string) {
	c.mu.Lock()
	m := c.distinct[set]
	if m == nil {
		m = map[string]struct{}{}
		c.distinct[set] = m
	}
	// bounded memory: beyond the cap the set size is a lower bound (recorded in the evidence)
	if len(m) < distinctCap {
		m[member] = struct{}{}
	} else if _, ok := m[member]; !ok {
		c.counts["distinct_set_capped:"+set]++
	}
	c.mu.Unlock()
}

func (c *Ctx) DistinctLen(set string) int {
	c.mu.Lock()
	defer c.mu.Unlock()
	return len(c.distinct[set])
}

func (c *Ctx) Sample(v any) {
	c.mu.Lock()
	if len(c.samples) < c.maxSamples {
		c.samples = append(c.samples, v)
	}
	c.mu.Unlock()
}

func (c *Ctx) Extra(key string, v any) {
	c.mu.Lock()
	c.extra[key] = v
	c.mu.Unlock()
}

func (c *Ctx) Note(format string, a ...any) {
	c.mu.Lock()
	if len(c.notes) < 40 {
		c.notes = append(c.notes, fmt.Sprintf(format, a...))
	}
	c.mu.Unlock()
}

// Inconclusive records that some part of the check could not decide.
func (c *Ctx) Inconclusive(format string, a ...any) {
	s := fmt.Sprintf(format, a...)
	c.mu.Lock()
	if len(c.inconclusive) < 50 {
		c.inconclusive = append(c.inconclusive, s)
	}
	c.mu.Unlock()
}

// Violation records a violation. sig names the failing input class / call site /
// history shape (it is what known-findings.json is matched against); desc is
// free text; replay is any JSON-able value that lets the case be re-run.
func (c *Ctx) Violation(sig, desc string, replay any) {
	c.mu.Lock()
	defer c.mu.Unlock()
	if v, ok := c.viol[sig]; ok {
		v.Count++
		return
	}
	v := &violation{Sig: sig, Desc: desc, Count: 1}
	for _, k := range c.known {
		if k.Property == c.ID && k.Status == "known" && sigMatch(k.Signature, sig) {
			v.Known = true
		}
	}
	if len(c.viol) < 200 {
		h := sha1.Sum([]byte(sig))
		dir := filepath.Join(Root, "evidence", "replay")
		os.MkdirAll(dir, 0o755)
		p := filepath.Join(dir, fmt.Sprintf("%s-%s.json", c.ID, hex.EncodeToString(h[:6])))
		b, _ := json.MarshalIndent(map[string]any{"property": c.ID, "signature": sig, "description": desc,
			"seed": c.Seed, "tier": c.Tier, "case": replay}, "", " ")
		os.WriteFile(p, b, 0o644)
		v.Replay = p
	}
	c.viol[sig] = v
	c.violOrder = append(c.violOrder, sig)
}

// sigMatch: a known signature matches exactly, or as a prefix when it ends in '*'.
func sigMatch(known, sig string) bool {
	if strings.HasSuffix(known, "*") {
		return strings.HasPrefix(sig, strings.TrimSuffix(known, "*"))
	}
	return known == sig
}

// ViolationOccurrences is the total number of times any (not known) violation was reported.
func (c *Ctx) ViolationOccurrences() int {
	c.mu.Lock()
	defer c.mu.Unlock()
	n := 0
	for _, v := range c.viol {
		if !v.Known {
			n += v.Count
		}
	}
	return n
}

func (c *Ctx) Violations() int {
	c.mu.Lock()
	defer c.mu.Unlock()
	n := 0
	for _, v := range c.viol {
		if !v.Known {
			n++
		}
	}
	return n
}

// Finish writes the evidence file, prints VIOLATION / KNOWN-FINDING /
// INCONCLUSIVE lines and returns the process exit code.
func (c *Ctx) Finish() int {
	c.mu.Lock()
	defer c.mu.Unlock()
	wall := time.Since(c.start).Seconds()
	cov := map[string]any{}
	for k, v := range c.extra {
		cov[k] = v
	}
	counts := map[string]int64{}
	for k, v := range c.counts {
		counts[k] = v
	}
	cov["counters"] = counts
	dl := map[string]int{}
	for k, v := range c.distinct {
		dl[k] = len(v)
		if len(v) <= 64 {
			ms := make([]string, 0, len(v))
			for m := range v {
				ms = append(ms, m)
			}
			sort.Strings(ms)
			cov["set_"+k] = ms
		}
	}
	cov["distinct_sets"] = dl
	cov["evaluations"] = c.counts[c.evalKey]
	cov["distinct_nontrivial"] = len(c.distinct[c.distinctKey])
	cov["rule"] = c.rule
	if len(c.samples) == 0 {
		c.samples = append(c.samples, "no case was explored")
	}
	cov["samples"] = c.samples
	if len(c.inconclusive) > 0 {
		cov["inconclusive"] = c.inconclusive
	}
	if len(c.notes) > 0 {
		cov["notes"] = c.notes
	}
	nviol, nknown := 0, 0
	var vl []map[string]any
	for _, sig := range c.violOrder {
		v := c.viol[sig]
		if v.Known {
			nknown++
		} else {
			nviol++
		}
		if len(vl) < 50 {
			vl = append(vl, map[string]any{"signature": v.Sig, "description": v.Desc, "replay": v.Replay, "known": v.Known, "occurrences": v.Count})
		}
	}
	if len(vl) > 0 {
		cov["violations_detail"] = vl
	}
	cov["known_findings_hit"] = nknown
	ev := map[string]any{
		"property_id": c.ID, "tier": c.Tier, "seed": c.Seed, "level": c.Level,
		"coverage": cov, "assumptions": c.assumptions, "wall_s": wall, "violations": nviol,
	}
	if c.assumptions == nil {
		ev["assumptions"] = []string{}
	}
	os.MkdirAll(filepath.Join(Root, "evidence"), 0o755)
	b, _ := json.MarshalIndent(ev, "", " ")
	evPath := filepath.Join(Root, "evidence", c.ID+".json")
	if err := os.WriteFile(evPath, b, 0o644); err != nil {
		fmt.Printf("HARNESS-ERROR cannot write evidence: %v\n", err)
		return 2
	}
	for _, s := range c.inconclusive {
		fmt.Printf("INCONCLUSIVE property=%s %s\n", c.ID, s)
	}
	printed := 0
	for _, sig := range c.violOrder {
		v := c.viol[sig]
		if v.Known {
			fmt.Printf("KNOWN-FINDING: property=%s %s (%s; seen %d times)\n", c.ID, v.Sig, oneLine(v.Desc), v.Count)
			continue
		}
		if printed < 12 {
			fmt.Printf("VIOLATION property=%s replay=%s\n   signature: %s\n   %s (seen %d times)\n", c.ID, v.Replay, v.Sig, oneLine(v.Desc), v.Count)
		}
		printed++
	}
	fmt.Printf("%s %s seed=%d: evaluations=%d distinct_nontrivial=%d violations=%d known=%d inconclusive=%d wall=%.1fs\n",
		c.ID, c.Tier, c.Seed, c.counts[c.evalKey], len(c.distinct[c.distinctKey]), nviol, nknown, len(c.inconclusive), wall)
	if nviol > 0 {
		return 1
	}
	// a run that observed nothing is a harness failure, not a pass
	if c.counts[c.evalKey] < 1 || len(c.distinct[c.distinctKey]) < 2 {
		fmt.Printf("HARNESS-ERROR property=%s observed too little (evaluations=%d distinct=%d)\n", c.ID, c.counts[c.evalKey], len(c.distinct[c.distinctKey]))
		return 2
	}
	return 0
}

func oneLine(s string) string {
	s = strings.ReplaceAll(s, "\n", " | ")
	if len(s) > 400 {
		s = s[:400] + "..."
	}
	return s
}
