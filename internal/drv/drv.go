// Package drv drives a real *wal.WAL (production wal + segment packages) over a
// simfs.Disk or a real directory and observes it through the public API.
package drv

import (
	"errors"
	"fmt"
	"time"

	"github.com/hashicorp/go-hclog"
	"github.com/hashicorp/raft"
	wal "github.com/hashicorp/raft-wal"
	"github.com/hashicorp/raft-wal/metrics"
	"github.com/hashicorp/raft-wal/segment"

	"verif/internal/gen"
	"verif/internal/hooks"
	"verif/internal/model"
	"verif/internal/simfs"
)

const Watchdog = 60 * time.Second

var nullLog = hclog.NewNullLogger()

// Cfg is how a WAL is opened.
type Cfg struct {
	SegSize int
	Metrics metrics.Collector
	Codec   wal.Codec
}

// OpenSim opens a WAL whose files and metadata live on disk.
func OpenSim(disk *simfs.Disk, c Cfg) (*wal.WAL, error) {
	meta := disk.NewMeta()
	sf := segment.NewFiler("sim", disk)
	mc := c.Metrics
	if mc == nil {
		mc = &metrics.NoOpCollector{}
	}
	w, err := wal.Open("sim", wal.WithSegmentFiler(sf), wal.WithMetaStore(meta), wal.WithSegmentSize(c.SegSize),
		wal.WithMetricsCollector(mc), wal.WithLogger(nullLog), wal.WithCodec(c.Codec))
	if err == nil {
		hooks.Track(w)
	}
	return w, err
}

// OpenDir opens a WAL on a real directory with the production fs and bolt.
func OpenDir(dir string, c Cfg) (*wal.WAL, error) {
	mc := c.Metrics
	if mc == nil {
		mc = &metrics.NoOpCollector{}
	}
	w, err := wal.Open(dir, wal.WithSegmentSize(c.SegSize), wal.WithMetricsCollector(mc), wal.WithLogger(nullLog), wal.WithCodec(c.Codec))
	if err == nil {
		hooks.Track(w)
	}
	return w, err
}

// Store is the API surface the oracles use.
type Store interface {
	FirstIndex() (uint64, error)
	LastIndex() (uint64, error)
	GetLog(uint64, *raft.Log) error
}

// Observe reads First/Last and every probe index.
func Observe(w Store, probes []uint64) *model.Obs {
	o := &model.Obs{Got: make(map[uint64]*raft.Log, len(probes))}
	var err error
	if o.First, err = w.FirstIndex(); err != nil {
		o.FErr = err.Error()
	}
	if o.Last, err = w.LastIndex(); err != nil {
		o.LErr = err.Error()
	}
	for _, p := range probes {
		var l raft.Log
		err := w.GetLog(p, &l)
		switch {
		case err == nil:
			o.Got[p] = &l
		case errors.Is(err, raft.ErrLogNotFound):
			o.Got[p] = nil
		default:
			if o.Errs == nil {
				o.Errs = map[uint64]string{}
			}
			o.Errs[p] = err.Error()
		}
	}
	return o
}

// Result of applying one op.
type Result struct {
	Err error
	// Quiesced is false if a triggered rotation did not finish within the watchdog.
	Quiesced bool
}

// Apply executes op against w (append/delete/set/setu64) and waits for any
// background rotation it triggered, so that the sequence of I/O boundaries is a
// pure function of the workload.
func Apply(w *wal.WAL, op gen.Op) Result {
	var err error
	switch op.Kind {
	case "append":
		err = w.StoreLogs(op.Logs)
	case "delete":
		err = w.DeleteRange(op.Min, op.Max)
	case "set":
		err = w.Set(op.Key, op.Val)
	case "setu64":
		err = w.SetUint64(op.Key, op.U64)
	default:
		err = fmt.Errorf("drv: unknown op %q", op.Kind)
	}
	q := hooks.WaitRotation(w, Watchdog)
	return Result{Err: err, Quiesced: q}
}

// CloseWAL closes w and forgets its rotation bookkeeping.
func CloseWAL(w *wal.WAL) error {
	err := w.Close()
	hooks.Forget(w)
	return err
}

// ApplyNoWait executes op without waiting for a background rotation it triggered.
func ApplyNoWait(w *wal.WAL, op gen.Op) Result {
	var err error
	switch op.Kind {
	case "append":
		err = w.StoreLogs(op.Logs)
	case "delete":
		err = w.DeleteRange(op.Min, op.Max)
	case "set":
		err = w.Set(op.Key, op.Val)
	case "setu64":
		err = w.SetUint64(op.Key, op.U64)
	default:
		err = fmt.Errorf("drv: unknown op %q", op.Kind)
	}
	return Result{Err: err, Quiesced: true}
}
