// Package sched drives interleavings through the verif hook points: directed
// parking of a goroutine at a named point, and seeded random perturbation.
package sched

import (
	"bytes"
	"math/rand"
	"runtime"
	"strconv"
	"sync"
	"sync/atomic"
	"time"

	"verif/internal/hooks"
)

// Goid returns the id of the calling goroutine.
func Goid() int64 { return goid() }

func goid() int64 {
	var buf [64]byte
	n := runtime.Stack(buf[:], false)
	// "goroutine 123 [running]:"
	b := buf[:n]
	b = b[len("goroutine "):]
	if i := bytes.IndexByte(b, ' '); i > 0 {
		id, _ := strconv.ParseInt(string(b[:i]), 10, 64)
		return id
	}
	return -1
}

// Parking is one armed park rule.
type Parking struct {
	role, point string
	skip        int // let this many hits pass first
	reached     chan struct{}
	release     chan struct{}
	hit         atomic.Bool
	once        sync.Once
}

// Reached is closed when a goroutine is parked here.
func (p *Parking) Reached() <-chan struct{} { return p.reached }

// WaitReached waits until parked or the timeout (false).
func (p *Parking) WaitReached(d time.Duration) bool {
	select {
	case <-p.reached:
		return true
	case <-time.After(d):
		return false
	}
}

// Release lets the parked goroutine continue (idempotent; also disarms the rule).
func (p *Parking) Release() { p.once.Do(func() { close(p.release) }) }

// Controller owns the hook listeners for one scenario. Only one Controller may
// be installed at a time per process when parking is used.
type Controller struct {
	mu      sync.Mutex
	roles   map[int64]string
	parks   []*Parking
	hits    map[string]int64
	perturb *rand.Rand
	prob    float64
	owner   any // restrict to hooks whose arg is this WAL (nil: any)
	removes []func()
	Trace   []string
	traceOn bool
}

func New() *Controller {
	return &Controller{roles: map[int64]string{}, hits: map[string]int64{}}
}

// Install registers the listeners; call the returned func to remove them.
func (c *Controller) Install() func() {
	l := func(point string, arg any) { c.on(point, arg) }
	c.removes = []func(){hooks.OnWAL(l), hooks.OnSegment(l)}
	return func() {
		for _, r := range c.removes {
			r()
		}
		c.mu.Lock()
		for _, p := range c.parks {
			p.Release()
		}
		c.mu.Unlock()
	}
}

// Tag names the calling goroutine.
func (c *Controller) Tag(role string) {
	id := goid()
	c.mu.Lock()
	c.roles[id] = role
	c.mu.Unlock()
}

// Perturb enables random yields/sleeps at every hook hit.
func (c *Controller) Perturb(seed int64, prob float64) {
	c.mu.Lock()
	c.perturb = rand.New(rand.NewSource(seed))
	c.prob = prob
	c.mu.Unlock()
}

// EnableTrace records (role, point) of every hit.
func (c *Controller) EnableTrace() { c.mu.Lock(); c.traceOn = true; c.mu.Unlock() }

// ParkAt arms a rule: the (skip+1)-th goroutine with the given role ("*" = any)
// reaching point parks until Release.
func (c *Controller) ParkAt(role, point string, skip int) *Parking {
	p := &Parking{role: role, point: point, skip: skip, reached: make(chan struct{}), release: make(chan struct{})}
	c.mu.Lock()
	c.parks = append(c.parks, p)
	c.mu.Unlock()
	return p
}

// Hits returns a copy of the per-point hit counters.
func (c *Controller) Hits() map[string]int64 {
	c.mu.Lock()
	defer c.mu.Unlock()
	m := make(map[string]int64, len(c.hits))
	for k, v := range c.hits {
		m[k] = v
	}
	return m
}

func (c *Controller) on(point string, arg any) {
	id := goid()
	c.mu.Lock()
	role := c.roles[id]
	c.hits[point]++
	if c.traceOn && len(c.Trace) < 2000 {
		c.Trace = append(c.Trace, role+"@"+point)
	}
	var park *Parking
	for _, p := range c.parks {
		if p.point != point || p.hit.Load() {
			continue
		}
		if p.role != "*" && p.role != role {
			continue
		}
		if p.skip > 0 {
			p.skip--
			continue
		}
		p.hit.Store(true)
		park = p
		break
	}
	var doYield, doSleep int
	if park == nil && c.perturb != nil && c.perturb.Float64() < c.prob {
		switch c.perturb.Intn(3) {
		case 0:
			doYield = 1 + c.perturb.Intn(3)
		case 1:
			doSleep = 1 + c.perturb.Intn(200)
		default:
			doYield = 1
		}
	}
	c.mu.Unlock()
	if park != nil {
		close(park.reached)
		<-park.release
		return
	}
	for i := 0; i < doYield; i++ {
		runtime.Gosched()
	}
	if doSleep > 0 {
		time.Sleep(time.Duration(doSleep) * time.Microsecond)
	}
}

// RotGate holds the background rotation goroutine of ONE WAL at "rotate.received"
// (rotation queued, write lock not yet taken) until the next writer call starts
// waiting for it ("awaitRotation.wait"), or until Release is called. It makes the
// race between a caller's next call and the background rotation deterministic:
// the caller always gets the lock first.
type RotGate struct {
	w       any
	mu      sync.Mutex
	ch      chan struct{}
	running bool // a rotation passed the gate and has not finished yet
	pass    bool // a writer is already waiting for a rotation that has not reached the gate: let it through
	remove  func()
	Parked  atomic.Int64 // how many rotations were held
	Waited  atomic.Int64 // how many times a writer call waited for the held rotation
}

func NewRotGate(w any) *RotGate {
	g := &RotGate{w: w}
	g.remove = hooks.OnWAL(func(point string, arg any) {
		if arg != g.w {
			return
		}
		switch point {
		case "rotate.received":
			g.mu.Lock()
			if g.pass {
				g.pass = false
				g.running = true
				g.mu.Unlock()
				return
			}
			ch := make(chan struct{})
			g.ch = ch
			g.mu.Unlock()
			g.Parked.Add(1)
			<-ch
		case "rotate.done", "rotate.exit":
			g.mu.Lock()
			g.running = false
			g.mu.Unlock()
		case "awaitRotation.wait":
			g.Waited.Add(1)
			g.mu.Lock()
			if g.ch != nil {
				close(g.ch)
				g.ch = nil
				g.running = true
			} else {
				// the rotation this writer waits for has not reached the gate (or is running):
				// never hold the next one that arrives, or the writer would wait forever. At
				// worst this lets one later rotation through un-held.
				g.pass = true
			}
			g.mu.Unlock()
		}
	})
	return g
}

// Release lets a held rotation proceed (no-op if none is held).
func (g *RotGate) Release() {
	g.mu.Lock()
	if g.ch != nil {
		close(g.ch)
		g.ch = nil
		g.running = true
	}
	g.mu.Unlock()
}

// Settle waits until a rotation that the last call queued has either arrived at the gate
// (and is held) or, when the gate lets it pass, has finished - so that what the driver does
// next does not depend on how fast the rotation goroutine was scheduled. triggered/finished
// are read through the function the caller passes (hooks.Rotations). Returns false when
// neither happened within the watchdog.
func (g *RotGate) Settle(rotations func() (triggered, finished, exited int64), watchdog time.Duration) bool {
	var deadline time.Time
	for i := 0; ; i++ {
		t, f, x := rotations()
		if f >= t || x > 0 || g.Holding() {
			return true
		}
		if i < 200 {
			runtime.Gosched()
			continue
		}
		if deadline.IsZero() {
			deadline = time.Now().Add(watchdog)
		}
		if time.Now().After(deadline) {
			return false
		}
		time.Sleep(20 * time.Microsecond)
	}
}

// Holding reports whether a rotation is currently held.
func (g *RotGate) Holding() bool {
	g.mu.Lock()
	defer g.mu.Unlock()
	return g.ch != nil
}

// Close removes the gate.
func (g *RotGate) Close() {
	g.remove()
	g.mu.Lock()
	g.pass = true
	g.mu.Unlock()
	g.Release()
}
