// Package model holds the reference models the oracles compare against: a
// contiguous log with per-entry acknowledgement status, and a stable map.
package model

import (
	"bytes"
	"errors"
	"fmt"
	"sort"
	"time"

	"github.com/hashicorp/raft"
)

// Ent is one entry of the model log.
type Ent struct {
	Log   *raft.Log
	Batch int  // id of the StoreLogs call that wrote it
	Acked bool // false: written by a call that never returned nil (in flight at a crash, or failed)
}

// Log is the contiguous-log reference model. Empty log: First == Last == 0.
type Log struct {
	First, Last uint64
	Ents        map[uint64]*Ent
}

func NewLog() *Log { return &Log{Ents: map[uint64]*Ent{}} }

func (l *Log) Clone() *Log {
	n := &Log{First: l.First, Last: l.Last, Ents: make(map[uint64]*Ent, len(l.Ents))}
	for k, v := range l.Ents {
		n.Ents[k] = v // Ent values are immutable once stored, except Acked which is set via Promote (copying)
	}
	return n
}

func (l *Log) Empty() bool { return l.Last == 0 }
func (l *Log) Len() int    { return len(l.Ents) }

var ErrModelReject = errors.New("model: call must be rejected")

// CheckAppend says whether the model accepts the batch (README rules).
func (l *Log) CheckAppend(logs []*raft.Log) error {
	if len(logs) == 0 {
		return nil
	}
	for i := 1; i < len(logs); i++ {
		if logs[i].Index != logs[i-1].Index+1 {
			return ErrModelReject
		}
	}
	if !l.Empty() && logs[0].Index != l.Last+1 {
		return ErrModelReject
	}
	if l.Empty() && logs[0].Index == 0 {
		return ErrModelReject
	}
	return nil
}

// Append applies an accepted batch.
func (l *Log) Append(logs []*raft.Log, batch int, acked bool) {
	if len(logs) == 0 {
		return
	}
	if acked {
		// everything below an acknowledged entry is needed for contiguity
		for k, e := range l.Ents {
			if !e.Acked {
				l.Ents[k] = &Ent{Log: e.Log, Batch: e.Batch, Acked: true}
			}
		}
	}
	for _, lg := range logs {
		l.Ents[lg.Index] = &Ent{Log: CopyLog(lg), Batch: batch, Acked: acked}
	}
	if l.Empty() {
		l.First = logs[0].Index
	}
	l.Last = logs[len(logs)-1].Index
}

// DeleteKind classifies a DeleteRange against the current model state.
type DeleteKind int

const (
	DelNoop DeleteKind = iota
	DelHead
	DelTail
	DelAll
	DelMiddle // must be rejected
)

func (k DeleteKind) String() string {
	return [...]string{"noop", "head", "tail", "all", "middle"}[k]
}

func (l *Log) ClassifyDelete(min, max uint64) DeleteKind {
	if min > max {
		return DelNoop
	}
	if l.Empty() {
		return DelNoop
	}
	if max < l.First || min > l.Last {
		return DelNoop
	}
	if min <= l.First && max >= l.Last {
		return DelAll
	}
	if min <= l.First {
		return DelHead
	}
	if max >= l.Last {
		return DelTail
	}
	return DelMiddle
}

// DeleteRange applies an accepted (non-middle) deletion.
func (l *Log) DeleteRange(min, max uint64) {
	switch l.ClassifyDelete(min, max) {
	case DelAll:
		l.Ents = map[uint64]*Ent{}
		l.First, l.Last = 0, 0
	case DelHead:
		for i := l.First; i <= max; i++ {
			delete(l.Ents, i)
		}
		l.First = max + 1
	case DelTail:
		for i := min; i <= l.Last; i++ {
			delete(l.Ents, i)
		}
		l.Last = min - 1
	}
}

// PromoteAll marks every entry acknowledged.
func (l *Log) PromoteAll() {
	for k, e := range l.Ents {
		if !e.Acked {
			l.Ents[k] = &Ent{Log: e.Log, Batch: e.Batch, Acked: true}
		}
	}
}

// DropTrailingUnacked returns the candidates obtained by dropping 0..n trailing
// unacknowledged batches (each batch all-or-nothing). The receiver itself is
// the first candidate.
func (l *Log) DropTrailingUnacked() []*Log {
	out := []*Log{l}
	cur := l
	for !cur.Empty() {
		e := cur.Ents[cur.Last]
		if e == nil || e.Acked {
			break
		}
		n := cur.Clone()
		b := e.Batch
		i := n.Last
		for i >= n.First && n.Ents[i] != nil && n.Ents[i].Batch == b && !n.Ents[i].Acked {
			delete(n.Ents, i)
			if i == 0 {
				break
			}
			i--
		}
		if len(n.Ents) == 0 {
			n.First, n.Last = 0, 0
		} else {
			n.Last = i
		}
		out = append(out, n)
		cur = n
	}
	return out
}

// Obs is what was observed through the LogStore API.
type Obs struct {
	First, Last uint64
	// Got maps each probed index to the entry returned (nil = ErrLogNotFound).
	Got map[uint64]*raft.Log
	// Errs holds any error other than not-found per index, or for First/Last (key 0 / ^0).
	Errs map[uint64]string
	FErr string
	LErr string
}

// ProbeSet returns the indexes to read for comparing against any of the candidate logs.
func ProbeSet(extra []uint64, cands ...*Log) []uint64 {
	set := map[uint64]struct{}{0: {}, 1: {}, ^uint64(0): {}}
	for _, c := range cands {
		if c == nil {
			continue
		}
		if !c.Empty() {
			lo := c.First
			if lo > 2 {
				lo -= 2
			} else {
				lo = 0
			}
			for i := lo; i <= c.Last+2; i++ {
				set[i] = struct{}{}
			}
		}
	}
	for _, e := range extra {
		set[e] = struct{}{}
	}
	out := make([]uint64, 0, len(set))
	for k := range set {
		out = append(out, k)
	}
	sort.Slice(out, func(i, j int) bool { return out[i] < out[j] })
	return out
}

// Diff returns "" if the observation equals the model on every probed index,
// else a description of the first few differences.
func (l *Log) Diff(o *Obs) string {
	var d []string
	if o.FErr != "" {
		d = append(d, "FirstIndex error: "+o.FErr)
	}
	if o.LErr != "" {
		d = append(d, "LastIndex error: "+o.LErr)
	}
	if o.First != l.First {
		d = append(d, fmt.Sprintf("FirstIndex=%d want %d", o.First, l.First))
	}
	if o.Last != l.Last {
		d = append(d, fmt.Sprintf("LastIndex=%d want %d", o.Last, l.Last))
	}
	keys := make([]uint64, 0, len(o.Got)+len(o.Errs))
	for k := range o.Got {
		keys = append(keys, k)
	}
	for k := range o.Errs {
		if _, ok := o.Got[k]; !ok {
			keys = append(keys, k)
		}
	}
	sort.Slice(keys, func(i, j int) bool { return keys[i] < keys[j] })
	for _, k := range keys {
		if len(d) > 6 {
			d = append(d, "...")
			break
		}
		want := l.Ents[k]
		if e, ok := o.Errs[k]; ok {
			d = append(d, fmt.Sprintf("GetLog(%d) error %q (model: %s)", k, e, present(want)))
			continue
		}
		got := o.Got[k]
		switch {
		case got == nil && want == nil:
		case got == nil:
			d = append(d, fmt.Sprintf("GetLog(%d)=NotFound, model has it", k))
		case want == nil:
			d = append(d, fmt.Sprintf("GetLog(%d) returned an entry (%s), model has none", k, Brief(got)))
		default:
			if s := LogDiff(got, want.Log); s != "" {
				d = append(d, fmt.Sprintf("GetLog(%d) differs: %s", k, s))
			}
		}
	}
	if len(d) == 0 {
		return ""
	}
	return fmt.Sprint(d)
}

func present(e *Ent) string {
	if e == nil {
		return "absent"
	}
	return "present"
}

func Brief(l *raft.Log) string {
	d := l.Data
	if len(d) > 24 {
		d = d[:24]
	}
	return fmt.Sprintf("idx=%d term=%d type=%d len=%d data=%q", l.Index, l.Term, l.Type, len(l.Data), d)
}

// LogDiff compares every field. nil and empty byte slices are equal (the codec
// documents that), times are compared as instants plus zone offset.
func LogDiff(got, want *raft.Log) string {
	var d []string
	if got.Index != want.Index {
		d = append(d, fmt.Sprintf("Index %d!=%d", got.Index, want.Index))
	}
	if got.Term != want.Term {
		d = append(d, fmt.Sprintf("Term %d!=%d", got.Term, want.Term))
	}
	if got.Type != want.Type {
		d = append(d, fmt.Sprintf("Type %d!=%d", got.Type, want.Type))
	}
	if !bytes.Equal(got.Data, want.Data) {
		d = append(d, fmt.Sprintf("Data len %d vs %d (%q vs %q)", len(got.Data), len(want.Data), head(got.Data), head(want.Data)))
	}
	if !bytes.Equal(got.Extensions, want.Extensions) {
		d = append(d, fmt.Sprintf("Extensions len %d vs %d", len(got.Extensions), len(want.Extensions)))
	}
	if !TimeEq(got.AppendedAt, want.AppendedAt) {
		d = append(d, fmt.Sprintf("AppendedAt %v!=%v", got.AppendedAt, want.AppendedAt))
	}
	if len(d) == 0 {
		return ""
	}
	return fmt.Sprint(d)
}

func head(b []byte) []byte {
	if len(b) > 20 {
		return b[:20]
	}
	return b
}

func TimeEq(a, b time.Time) bool {
	if !a.Equal(b) {
		return false
	}
	_, ao := a.Zone()
	_, bo := b.Zone()
	return ao == bo
}

func CopyLog(l *raft.Log) *raft.Log {
	c := *l
	if l.Data != nil {
		c.Data = append([]byte(nil), l.Data...)
	}
	if l.Extensions != nil {
		c.Extensions = append([]byte(nil), l.Extensions...)
	}
	return &c
}

// Stable is the reference model of the StableStore.
type Stable struct {
	M map[string][]byte
}

func NewStable() *Stable { return &Stable{M: map[string][]byte{}} }
func (s *Stable) Clone() *Stable {
	n := NewStable()
	for k, v := range s.M {
		n.M[k] = v
	}
	return n
}
func (s *Stable) Set(k, v []byte) {
	if v == nil {
		delete(s.M, string(k))
		return
	}
	s.M[string(k)] = append([]byte{}, v...)
}
func (s *Stable) Get(k []byte) []byte { return s.M[string(k)] }
