// Package proc runs the production stack in child processes under strace and
// parses the syscall trace into typed events.
package proc

import (
	"bufio"
	"os"
	"path/filepath"
	"regexp"
	"strconv"
	"strings"
)

// Event is one completed syscall (or a marker write).
type Event struct {
	Pid    int
	Name   string // openat, pwrite64, fsync, fdatasync, unlinkat, renameat, fallocate, ftruncate, write, flock
	Path   string // path of the fd operated on, or the path argument
	Path2  string // rename destination
	Flags  string // openat flags
	Ret    int64
	Failed bool
	Start  int    // line number of the call's first line
	End    int    // line number of its completion
	Marker string // for writes to the marker file: the text written
	Off    int64  // pwrite64 offset
	Len    int64
	Data   string // pwrite64 payload (complete only when strace ran with a large enough -s)
	Trunc  bool   // payload was abbreviated by strace
	Raw    string
}

var (
	lineRe    = regexp.MustCompile(`^(\d+)\s+(.*)$`)
	callRe    = regexp.MustCompile(`^([a-z0-9_]+)\((.*)$`)
	resumedRe = regexp.MustCompile(`^<\.\.\. ([a-z0-9_]+) resumed>(.*)$`)
	retRe     = regexp.MustCompile(`\)\s*=\s*(-?\d+|\?)(.*)$`)
	fdPathRe  = regexp.MustCompile(`^\d+<([^>]*)>`)
	quotedRe  = regexp.MustCompile(`"((?:[^"\\]|\\.)*)"`)
)

// ParseResult carries the events and parse statistics.
type ParseResult struct {
	Events     []*Event
	Unparsed   []string // relevant-looking lines that could not be parsed
	Lines      int
	Unfinished int
	Killed     bool
}

// Parse reads an strace -f -y log.
func Parse(path string, markerFile string) (*ParseResult, error) {
	f, err := os.Open(path)
	if err != nil {
		return nil, err
	}
	defer f.Close()
	res := &ParseResult{}
	pending := map[int]struct {
		text  string
		start int
	}{}
	sc := bufio.NewScanner(f)
	sc.Buffer(make([]byte, 1<<20), 1<<24)
	n := 0
	for sc.Scan() {
		n++
		m := lineRe.FindStringSubmatch(sc.Text())
		if m == nil {
			continue
		}
		pid, _ := strconv.Atoi(m[1])
		rest := m[2]
		if strings.HasPrefix(rest, "---") || strings.HasPrefix(rest, "+++") {
			if strings.Contains(rest, "killed by SIGKILL") {
				res.Killed = true
			}
			continue
		}
		start := n
		if rm := resumedRe.FindStringSubmatch(rest); rm != nil {
			p, ok := pending[pid]
			if !ok {
				res.Unparsed = append(res.Unparsed, rest)
				continue
			}
			delete(pending, pid)
			rest = p.text + rm[2]
			start = p.start
		} else if strings.HasSuffix(rest, "<unfinished ...>") {
			pending[pid] = struct {
				text  string
				start int
			}{strings.TrimSuffix(rest, " <unfinished ...>"), n}
			res.Unfinished++
			continue
		}
		ev := parseCall(rest)
		if ev == nil {
			if callRe.MatchString(rest) {
				res.Unparsed = append(res.Unparsed, rest)
			}
			continue
		}
		ev.Pid, ev.Start, ev.End = pid, start, n
		if ev.Name == "write" {
			if ev.Path != markerFile {
				continue
			}
			ev.Name = "marker"
		}
		res.Events = append(res.Events, ev)
	}
	res.Lines = n
	return res, sc.Err()
}

func unquote(s string) string {
	u, err := strconv.Unquote(`"` + s + `"`)
	if err != nil {
		return s
	}
	return u
}

// dirBefore returns the path annotation (AT_FDCWD</cwd> or 7</dir>) that immediately
// precedes position pos in args, "" if there is none.
var dirAnnRe = regexp.MustCompile(`(?:AT_FDCWD|\d+)<([^>]*)>,\s*$`)

func resolveRel(args string, quoted string, path string) string {
	if strings.HasPrefix(path, "/") {
		return path
	}
	i := strings.Index(args, quoted)
	if i < 0 {
		return path
	}
	m := dirAnnRe.FindStringSubmatch(args[:i])
	if m == nil {
		return path
	}
	return filepath.Clean(filepath.Join(unquote(m[1]), path))
}

func parseCall(s string) *Event {
	m := callRe.FindStringSubmatch(s)
	if m == nil {
		return nil
	}
	ev := &Event{Name: m[1], Raw: s}
	args := m[2]
	rm := retRe.FindStringSubmatch(args)
	if rm == nil {
		return nil
	}
	if rm[1] == "?" {
		ev.Failed = true
	} else {
		ev.Ret, _ = strconv.ParseInt(rm[1], 10, 64)
		ev.Failed = ev.Ret < 0
	}
	args = args[:strings.LastIndex(args, rm[0])]
	switch ev.Name {
	case "openat":
		// openat(AT_FDCWD</cwd>, "path", FLAGS[, mode])
		q := quotedRe.FindStringSubmatch(args)
		if q == nil {
			return nil
		}
		ev.Path = resolveRel(args, q[0], unquote(q[1]))
		after := args[strings.Index(args, q[0])+len(q[0]):]
		parts := strings.Split(strings.TrimPrefix(after, ", "), ",")
		if len(parts) > 0 {
			ev.Flags = strings.TrimSpace(parts[0])
		}
	case "pwrite64", "fsync", "fdatasync", "fallocate", "ftruncate", "flock", "write":
		fm := fdPathRe.FindStringSubmatch(args)
		if fm == nil {
			return nil
		}
		ev.Path = unquote(fm[1])
		if ev.Name == "write" {
			if q := quotedRe.FindStringSubmatch(args); q != nil {
				ev.Marker = strings.TrimSpace(unquote(q[1]))
			}
		}
		if ev.Name == "pwrite64" {
			if q := quotedRe.FindStringSubmatch(args); q != nil {
				ev.Data = unquote(q[1])
				ev.Trunc = strings.Contains(args, q[0]+"...")
			}
			f := strings.Split(args, ",")
			if len(f) >= 2 {
				ev.Off, _ = strconv.ParseInt(strings.TrimSpace(f[len(f)-1]), 10, 64)
				ev.Len, _ = strconv.ParseInt(strings.TrimSpace(f[len(f)-2]), 10, 64)
			}
		}
		if ev.Name == "ftruncate" || ev.Name == "fallocate" {
			f := strings.Split(args, ",")
			ev.Len, _ = strconv.ParseInt(strings.TrimSpace(f[len(f)-1]), 10, 64)
		}
	case "unlinkat", "unlink":
		q := quotedRe.FindStringSubmatch(args)
		if q == nil {
			return nil
		}
		ev.Path = resolveRel(args, q[0], unquote(q[1]))
		ev.Name = "unlink"
	case "renameat", "renameat2", "rename":
		qs := quotedRe.FindAllStringSubmatch(args, -1)
		if len(qs) < 2 {
			return nil
		}
		ev.Path, ev.Path2 = resolveRel(args, qs[0][0], unquote(qs[0][1])), resolveRel(args, qs[1][0], unquote(qs[1][1]))
		ev.Name = "rename"
	default:
		return nil
	}
	return ev
}
