// Package simfs is an in-memory types.VFS and types.MetaStore that separates
// volatile from durable state, numbers every call as an injection boundary,
// takes cheap snapshots from which crash images are derived, and can fail any
// call before or after its effect.
package simfs

import (
	"errors"
	"fmt"
	"io"
	"os"
	"sort"
	"sync"

	"github.com/hashicorp/raft-wal/types"
)

// Behaviour is how the production fs package treats directory syncs; it is
// measured from the real code (see Calibrate) rather than assumed.
type Behaviour struct {
	CreatedFirstSyncSyncsDir bool // first Sync on a handle from Create also fsyncs the directory
	CreatedLaterSyncSyncsDir bool // later Syncs on such a handle fsync the directory too
	ReopenedSyncSyncsDir     bool // first Sync on a handle from OpenWriter fsyncs the directory
	DeleteSyncsDir           bool // Delete fsyncs the directory after unlinking
	SyncSyncsFile            bool // Sync on a created handle fsyncs the file itself
	CreateExclusive          bool // Create fails if the name exists
	CreatePreallocates       bool // Create makes the file `size` zero bytes long
}

// Strict is the behaviour the WAL's design assumes.
var Strict = Behaviour{true, false, false, true, true, true, true}

type Kind int

const (
	KListDir Kind = iota
	KCreate
	KDelete
	KOpenReader
	KOpenWriter
	KReadAt
	KWriteAt
	KSync
	KClose
	KMetaLoad
	KMetaCommit
	KMetaSet
	KMetaGet
	KMetaClose
)

var kindNames = [...]string{"ListDir", "Create", "Delete", "OpenReader", "OpenWriter", "ReadAt", "WriteAt", "Sync", "Close",
	"MetaLoad", "MetaCommit", "MetaSet", "MetaGet", "MetaClose"}

func (k Kind) String() string { return kindNames[k] }

// Mutating says whether a call of this kind can change what a crash leaves behind.
func (k Kind) Mutating() bool {
	switch k {
	case KCreate, KDelete, KWriteAt, KSync, KMetaCommit, KMetaSet:
		return true
	}
	return false
}

// Call describes one VFS/MetaStore call.
type Call struct {
	Seq  int // 1-based sequence number within this Disk
	Kind Kind
	Name string
	Off  int64
	Len  int
	// Stage: 0 = whole call done (post); 1 = intermediate point inside the call
	// (after unlink before the directory sync; after the file sync before the
	// directory sync; after a prefix of a write).
	Stage int
}

func (c Call) String() string {
	return fmt.Sprintf("#%d %s(%s off=%d len=%d) stage=%d", c.Seq, c.Kind, c.Name, c.Off, c.Len, c.Stage)
}

// Hook observes and perturbs calls. Methods are invoked with the Disk lock held;
// they may call the *Locked methods of the Disk (Snapshot) but nothing else.
type Hook interface {
	// Pre runs before the effect. A non-nil error is returned to the caller and
	// the call has no effect.
	Pre(d *Disk, c Call) error
	// Mid runs at intermediate points (Stage >= 1); it cannot fail the call.
	Mid(d *Disk, c Call)
	// Post runs after the effect. A non-nil error is returned to the caller even
	// though the effect happened.
	Post(d *Disk, c Call) error
}

type pwrite struct {
	off  int64
	data []byte
}

type inode struct {
	id     int
	vol    []byte   // what reads return
	dur    []byte   // certainly on disk (immutable slice, replaced on sync)
	pend   []pwrite // writes since the last sync of this file (append-only between syncs)
	synced bool     // has ever been fsynced (its length is durable)
	// durShared is set once a snapshot references dur; from then on dur must be
	// replaced, not updated in place.
	durShared bool
}

type dirOp struct {
	create bool
	name   string
	ino    *inode
}

// MetaState is the committed content of the meta store (immutable once stored).
type MetaState struct {
	Init   bool
	State  types.PersistentState
	Stable map[string][]byte
}

// History is carried across crash images of one directory lifetime for the
// segment-identity monitor.
type History struct {
	EverCommittedIDs map[uint64]bool
	MaxNextID        uint64
	CreatedNames     map[string]int
	Commits          int
	// IDBase remembers the base index each committed segment ID was committed with
	IDBase map[uint64]uint64
}

func (h *History) clone() *History {
	n := &History{EverCommittedIDs: make(map[uint64]bool, len(h.EverCommittedIDs)), MaxNextID: h.MaxNextID,
		CreatedNames: make(map[string]int, len(h.CreatedNames)), Commits: h.Commits, IDBase: make(map[uint64]uint64, len(h.IDBase))}
	for k, v := range h.IDBase {
		n.IDBase[k] = v
	}
	for k, v := range h.EverCommittedIDs {
		n.EverCommittedIDs[k] = v
	}
	for k, v := range h.CreatedNames {
		n.CreatedNames[k] = v
	}
	return n
}

// Disk is one simulated directory plus its meta store.
type Disk struct {
	mu       sync.Mutex
	beh      Behaviour
	files    map[string]*inode // volatile namespace
	durDir   map[string]*inode // durable namespace
	dirOps   []dirOp           // pending since the last directory sync
	meta     *MetaState
	nextIno  int
	seq      int
	hook     Hook
	open     int            // open file handles
	inoOpen  map[*inode]int // open handles per inode (C13: unlinked files that still hold space)
	metaOpen int
	Hist     *History
	// IDViolations collects segment-identity rule breaches seen online.
	IDViolations []string
	// stats
	NCalls map[Kind]int
}

func New(beh Behaviour) *Disk {
	return &Disk{beh: beh, files: map[string]*inode{}, durDir: map[string]*inode{}, meta: &MetaState{Stable: map[string][]byte{}},
		Hist: &History{EverCommittedIDs: map[uint64]bool{}, CreatedNames: map[string]int{}, IDBase: map[uint64]uint64{}}, NCalls: map[Kind]int{}}
}

func (d *Disk) SetHook(h Hook) { d.mu.Lock(); d.hook = h; d.mu.Unlock() }

func (d *Disk) Seq() int { d.mu.Lock(); defer d.mu.Unlock(); return d.seq }

// OpenHandles returns the number of file handles and meta stores currently open.
func (d *Disk) OpenHandles() (files, metas int) {
	d.mu.Lock()
	defer d.mu.Unlock()
	return d.open, d.metaOpen
}

var (
	ErrInjected = errors.New("simfs: injected I/O error")
)

func (d *Disk) inoRef(ino *inode, delta int) {
	if d.inoOpen == nil {
		d.inoOpen = map[*inode]int{}
	}
	d.inoOpen[ino] += delta
	if d.inoOpen[ino] <= 0 {
		delete(d.inoOpen, ino)
	}
}

// UnlinkedOpen returns how many open handles refer to files that no longer have a
// name in the (volatile) directory, and the bytes those files hold: space that a real
// filesystem cannot reclaim while the handles stay open.
func (d *Disk) UnlinkedOpen() (handles int, bytes int) {
	d.mu.Lock()
	defer d.mu.Unlock()
	linked := make(map[*inode]bool, len(d.files))
	for _, ino := range d.files {
		linked[ino] = true
	}
	for ino, n := range d.inoOpen {
		if !linked[ino] {
			handles += n
			bytes += len(ino.vol)
		}
	}
	return
}

// OpenPerName returns the number of open handles per linked file name.
func (d *Disk) OpenPerName() map[string]int {
	d.mu.Lock()
	defer d.mu.Unlock()
	out := map[string]int{}
	for n, ino := range d.files {
		if k := d.inoOpen[ino]; k > 0 {
			out[n] = k
		}
	}
	return out
}

func (d *Disk) pre(c Call) error {
	d.NCalls[c.Kind]++
	if d.hook != nil {
		return d.hook.Pre(d, c)
	}
	return nil
}
func (d *Disk) mid(c Call) {
	if d.hook != nil {
		d.hook.Mid(d, c)
	}
}
func (d *Disk) post(c Call) error {
	if d.hook != nil {
		return d.hook.Post(d, c)
	}
	return nil
}

func (d *Disk) next(k Kind, name string, off int64, ln int) Call {
	d.seq++
	return Call{Seq: d.seq, Kind: k, Name: name, Off: off, Len: ln}
}

// ---- types.VFS ----

func (d *Disk) ListDir(dir string) ([]string, error) {
	d.mu.Lock()
	defer d.mu.Unlock()
	c := d.next(KListDir, "", 0, 0)
	if err := d.pre(c); err != nil {
		return nil, err
	}
	names := d.listLocked()
	if err := d.post(c); err != nil {
		return nil, err
	}
	return names, nil
}

func (d *Disk) listLocked() []string {
	names := make([]string, 0, len(d.files))
	for n := range d.files {
		names = append(names, n)
	}
	sort.Strings(names)
	return names
}

// List returns the volatile directory listing without counting as a call.
func (d *Disk) List() []string {
	d.mu.Lock()
	defer d.mu.Unlock()
	return d.listLocked()
}

func (d *Disk) Create(dir, name string, size uint64) (types.WritableFile, error) {
	d.mu.Lock()
	defer d.mu.Unlock()
	c := d.next(KCreate, name, 0, int(size))
	if err := d.pre(c); err != nil {
		return nil, err
	}
	if _, ok := d.files[name]; ok && d.beh.CreateExclusive {
		d.post(c)
		return nil, &os.PathError{Op: "open", Path: name, Err: os.ErrExist}
	}
	d.nextIno++
	ino := &inode{id: d.nextIno}
	if old, ok := d.files[name]; ok && !d.beh.CreateExclusive {
		ino = old // O_CREATE without O_EXCL opens the existing file
	} else {
		if d.beh.CreatePreallocates {
			ino.vol = make([]byte, size)
		}
		d.files[name] = ino
		d.dirOps = append(d.dirOps, dirOp{create: true, name: name, ino: ino})
	}
	d.Hist.CreatedNames[name]++
	d.checkCreateLocked(name)
	d.open++
	d.inoRef(ino, 1)
	h := &handle{d: d, ino: ino, name: name, writable: true, created: true}
	if err := d.post(c); err != nil {
		// the file exists but the caller never sees the handle
		d.open--
		d.inoRef(ino, -1)
		h.closed = true
		return nil, err
	}
	return h, nil
}

func (d *Disk) Delete(dir, name string) error {
	d.mu.Lock()
	defer d.mu.Unlock()
	c := d.next(KDelete, name, 0, 0)
	if err := d.pre(c); err != nil {
		return err
	}
	ino, ok := d.files[name]
	if !ok {
		d.post(c)
		return &os.PathError{Op: "remove", Path: name, Err: os.ErrNotExist}
	}
	delete(d.files, name)
	d.dirOps = append(d.dirOps, dirOp{create: false, name: name, ino: ino})
	if d.beh.DeleteSyncsDir {
		c1 := c
		c1.Stage = 1
		d.mid(c1)
		d.syncDirLocked()
	}
	return d.post(c)
}

func (d *Disk) syncDirLocked() {
	for _, op := range d.dirOps {
		if op.create {
			d.durDir[op.name] = op.ino
		} else if d.durDir[op.name] == op.ino {
			delete(d.durDir, op.name)
		}
	}
	d.dirOps = nil
}

func (d *Disk) OpenReader(dir, name string) (types.ReadableFile, error) {
	return d.openHandle(KOpenReader, name, false)
}

func (d *Disk) OpenWriter(dir, name string) (types.WritableFile, error) {
	h, err := d.openHandle(KOpenWriter, name, true)
	if err != nil {
		return nil, err
	}
	return h, nil
}

func (d *Disk) openHandle(k Kind, name string, writable bool) (*handle, error) {
	d.mu.Lock()
	defer d.mu.Unlock()
	c := d.next(k, name, 0, 0)
	if err := d.pre(c); err != nil {
		return nil, err
	}
	ino, ok := d.files[name]
	if !ok {
		d.post(c)
		return nil, &os.PathError{Op: "open", Path: name, Err: os.ErrNotExist}
	}
	d.open++
	d.inoRef(ino, 1)
	h := &handle{d: d, ino: ino, name: name, writable: writable}
	if err := d.post(c); err != nil {
		d.open--
		d.inoRef(ino, -1)
		h.closed = true
		return nil, err
	}
	return h, nil
}

type handle struct {
	d        *Disk
	ino      *inode
	name     string
	writable bool
	created  bool
	syncs    int
	closed   bool
}

func (h *handle) ReadAt(p []byte, off int64) (int, error) {
	d := h.d
	d.mu.Lock()
	defer d.mu.Unlock()
	c := d.next(KReadAt, h.name, off, len(p))
	if err := d.pre(c); err != nil {
		return 0, err
	}
	if h.closed {
		return 0, os.ErrClosed
	}
	if off < 0 {
		return 0, errors.New("negative offset")
	}
	n := 0
	if off < int64(len(h.ino.vol)) {
		n = copy(p, h.ino.vol[off:])
	}
	if err := d.post(c); err != nil {
		return 0, err
	}
	if n < len(p) {
		return n, io.EOF
	}
	return n, nil
}

func (h *handle) WriteAt(p []byte, off int64) (int, error) {
	d := h.d
	d.mu.Lock()
	defer d.mu.Unlock()
	c := d.next(KWriteAt, h.name, off, len(p))
	if err := d.pre(c); err != nil {
		return 0, err
	}
	if h.closed {
		return 0, os.ErrClosed
	}
	if !h.writable {
		return 0, errors.New("bad file descriptor")
	}
	data := append([]byte(nil), p...)
	// intermediate points: a prefix of the write has reached the page cache
	if d.hook != nil && len(data) > 16 {
		cuts := []int{8, (len(data) / 2) &^ 7, (len(data) - 8) &^ 7}
		last := 0
		for _, cut := range cuts {
			if cut <= last || cut >= len(data) {
				continue
			}
			last = cut
			saveVol, savePend := h.ino.vol, h.ino.pend
			h.ino.vol = append([]byte(nil), h.ino.vol...)
			applyWrite(h.ino, pwrite{off, data[:cut]})
			c1 := c
			c1.Stage = cut
			d.mid(c1)
			h.ino.vol, h.ino.pend = saveVol, savePend
		}
	}
	applyWrite(h.ino, pwrite{off, data})
	if err := d.post(c); err != nil {
		return 0, err
	}
	return len(p), nil
}

func applyWrite(ino *inode, w pwrite) {
	end := w.off + int64(len(w.data))
	if end > int64(len(ino.vol)) {
		nv := make([]byte, end)
		copy(nv, ino.vol)
		ino.vol = nv
	}
	copy(ino.vol[w.off:], w.data)
	ino.pend = append(ino.pend[:len(ino.pend):len(ino.pend)], w)
}

func (h *handle) Sync() error {
	d := h.d
	d.mu.Lock()
	defer d.mu.Unlock()
	c := d.next(KSync, h.name, 0, 0)
	if err := d.pre(c); err != nil {
		return err
	}
	if h.closed {
		return os.ErrClosed
	}
	h.syncs++
	if !h.created || d.beh.SyncSyncsFile {
		ino := h.ino
		if !ino.durShared && len(ino.dur) == len(ino.vol) && ino.synced {
			for _, w := range ino.pend {
				copy(ino.dur[w.off:], w.data)
			}
		} else {
			ino.dur = append([]byte(nil), ino.vol...)
			ino.durShared = false
		}
		ino.pend = nil
		ino.synced = true
	}
	dirSync := false
	if h.created {
		dirSync = (h.syncs == 1 && d.beh.CreatedFirstSyncSyncsDir) || (h.syncs > 1 && d.beh.CreatedLaterSyncSyncsDir)
	} else {
		dirSync = h.syncs == 1 && d.beh.ReopenedSyncSyncsDir
	}
	if dirSync {
		c1 := c
		c1.Stage = 1
		d.mid(c1)
		d.syncDirLocked()
	}
	return d.post(c)
}

func (h *handle) Close() error {
	d := h.d
	d.mu.Lock()
	defer d.mu.Unlock()
	c := d.next(KClose, h.name, 0, 0)
	if err := d.pre(c); err != nil {
		return err
	}
	if h.closed {
		return os.ErrClosed
	}
	h.closed = true
	d.open--
	d.inoRef(h.ino, -1)
	return d.post(c)
}

// ---- types.MetaStore ----

// Meta is one opened view of the Disk's meta store (one per WAL instance).
type Meta struct {
	d      *Disk
	loaded bool
	closed bool
}

func (d *Disk) NewMeta() *Meta { return &Meta{d: d} }

var ErrMetaClosed = errors.New("simmeta: not open")

func (m *Meta) Load(dir string) (types.PersistentState, error) {
	d := m.d
	d.mu.Lock()
	defer d.mu.Unlock()
	c := d.next(KMetaLoad, "", 0, 0)
	if err := d.pre(c); err != nil {
		return types.PersistentState{}, err
	}
	if !m.loaded {
		m.loaded = true
		d.metaOpen++
	}
	if !d.meta.Init {
		nm := *d.meta
		nm.Init = true
		d.meta = &nm
	}
	st := copyState(d.meta.State)
	if err := d.post(c); err != nil {
		return types.PersistentState{}, err
	}
	return st, nil
}

func copyState(s types.PersistentState) types.PersistentState {
	n := types.PersistentState{NextSegmentID: s.NextSegmentID}
	if s.Segments != nil {
		n.Segments = append([]types.SegmentInfo(nil), s.Segments...)
	}
	return n
}

func (m *Meta) CommitState(st types.PersistentState) error {
	d := m.d
	d.mu.Lock()
	defer d.mu.Unlock()
	c := d.next(KMetaCommit, "", 0, len(st.Segments))
	if err := d.pre(c); err != nil {
		return err
	}
	if !m.loaded || m.closed {
		return ErrMetaClosed
	}
	d.checkIDsLocked(st)
	nm := *d.meta
	nm.State = copyState(st)
	d.meta = &nm
	return d.post(c)
}

// checkCreateLocked: a segment file may only be created for an ID that the
// durable metadata has already allocated and lists (C13: identities are reserved
// durably before files with them exist, so a crash cannot lead to a reuse).
func (d *Disk) checkCreateLocked(name string) {
	var base, id uint64
	if n, err := fmt.Sscanf(name, "%020d-%016x.wal", &base, &id); err != nil || n != 2 {
		return
	}
	st := d.meta.State
	if id >= st.NextSegmentID {
		d.IDViolations = append(d.IDViolations, fmt.Sprintf("create-before-commit: file created for segment ID %d while the durable NextSegmentID is %d", id, st.NextSegmentID))
		return
	}
	listed := false
	for _, s := range st.Segments {
		if s.ID == id && s.BaseIndex == base {
			listed = true
		}
	}
	if !listed {
		d.IDViolations = append(d.IDViolations, fmt.Sprintf("create-unlisted: file %s created for a segment the durable metadata does not list", name))
	}
}

// checkIDsLocked is the online segment-identity monitor (C13).
func (d *Disk) checkIDsLocked(st types.PersistentState) {
	h := d.Hist
	prev := d.meta.State
	prevIDs := map[uint64]bool{}
	for _, s := range prev.Segments {
		prevIDs[s.ID] = true
	}
	if st.NextSegmentID < h.MaxNextID {
		d.IDViolations = append(d.IDViolations, fmt.Sprintf("NextSegmentID went backwards: %d after %d", st.NextSegmentID, h.MaxNextID))
	}
	seen := map[uint64]bool{}
	for _, s := range st.Segments {
		if seen[s.ID] {
			d.IDViolations = append(d.IDViolations, fmt.Sprintf("segment ID %d listed twice in one committed state", s.ID))
		}
		seen[s.ID] = true
		if s.ID >= st.NextSegmentID {
			d.IDViolations = append(d.IDViolations, fmt.Sprintf("committed segment ID %d >= NextSegmentID %d", s.ID, st.NextSegmentID))
		}
		// A segment may come back only as the very same segment: the rollback of a
		// transaction whose post-commit step failed re-commits the previous segment list.
		// Same ID, same base index, and its file was never unlinked - no segment is
		// *created* there. Anything else is a reuse of an identity.
		_, fileStillThere := d.files[fmt.Sprintf("%020d-%016x.wal", s.BaseIndex, s.ID)]
		sameSegment := h.IDBase != nil && h.IDBase[s.ID] == s.BaseIndex && fileStillThere
		if !prevIDs[s.ID] && h.EverCommittedIDs[s.ID] && !sameSegment {
			d.IDViolations = append(d.IDViolations, fmt.Sprintf("segment ID %d re-introduced after it had left the committed state", s.ID))
		}
		if !prevIDs[s.ID] && s.ID < h.MaxNextID && !h.EverCommittedIDs[s.ID] && h.Commits > 0 {
			d.IDViolations = append(d.IDViolations, fmt.Sprintf("new segment ID %d is below the previously committed NextSegmentID %d", s.ID, h.MaxNextID))
		}
	}
	for id := range seen {
		h.EverCommittedIDs[id] = true
	}
	if h.IDBase == nil {
		h.IDBase = map[uint64]uint64{}
	}
	for _, sg := range st.Segments {
		if b, ok := h.IDBase[sg.ID]; ok && b != sg.BaseIndex {
			d.IDViolations = append(d.IDViolations, fmt.Sprintf("segment ID %d committed with base index %d after it had been committed with base index %d", sg.ID, sg.BaseIndex, b))
		}
		h.IDBase[sg.ID] = sg.BaseIndex
	}
	if st.NextSegmentID > h.MaxNextID {
		h.MaxNextID = st.NextSegmentID
	}
	h.Commits++
}

func (m *Meta) GetStable(key []byte) ([]byte, error) {
	d := m.d
	d.mu.Lock()
	defer d.mu.Unlock()
	c := d.next(KMetaGet, string(key), 0, 0)
	if err := d.pre(c); err != nil {
		return nil, err
	}
	if !m.loaded || m.closed {
		return nil, ErrMetaClosed
	}
	v, ok := d.meta.Stable[string(key)]
	if err := d.post(c); err != nil {
		return nil, err
	}
	if !ok {
		return nil, nil
	}
	return append([]byte{}, v...), nil
}

func (m *Meta) SetStable(key, value []byte) error {
	d := m.d
	d.mu.Lock()
	defer d.mu.Unlock()
	c := d.next(KMetaSet, string(key), 0, len(value))
	if err := d.pre(c); err != nil {
		return err
	}
	if !m.loaded || m.closed {
		return ErrMetaClosed
	}
	nm := *d.meta
	nm.Stable = make(map[string][]byte, len(d.meta.Stable)+1)
	for k, v := range d.meta.Stable {
		nm.Stable[k] = v
	}
	if value == nil {
		delete(nm.Stable, string(key))
	} else {
		nm.Stable[string(key)] = append([]byte{}, value...)
	}
	d.meta = &nm
	return d.post(c)
}

func (m *Meta) Close() error {
	d := m.d
	d.mu.Lock()
	defer d.mu.Unlock()
	c := d.next(KMetaClose, "", 0, 0)
	if err := d.pre(c); err != nil {
		return err
	}
	if m.loaded && !m.closed {
		d.metaOpen--
	}
	m.closed = true
	return d.post(c)
}

// MetaSnapshot returns the committed meta state (immutable).
func (d *Disk) MetaSnapshot() *MetaState {
	d.mu.Lock()
	defer d.mu.Unlock()
	return d.meta
}

// FileBytes returns a copy of the volatile content of a file (nil if absent).
func (d *Disk) FileBytes(name string) []byte {
	d.mu.Lock()
	defer d.mu.Unlock()
	ino, ok := d.files[name]
	if !ok {
		return nil
	}
	return append([]byte{}, ino.vol...)
}

// SetFileBytes replaces (or creates) a file with the given durable content. Used
// by corruption workloads to build damaged directories.
func (d *Disk) SetFileBytes(name string, b []byte) {
	d.mu.Lock()
	defer d.mu.Unlock()
	d.nextIno++
	ino := &inode{id: d.nextIno, vol: append([]byte{}, b...), synced: true}
	ino.dur = append([]byte{}, b...)
	d.files[name] = ino
	d.durDir[name] = ino
}

// TruncateInPlace shortens the existing file (the same inode: handles that are open on it
// see the shorter file), durably.
func (d *Disk) TruncateInPlace(name string, n int) {
	d.mu.Lock()
	defer d.mu.Unlock()
	ino := d.files[name]
	if ino == nil || n < 0 || n >= len(ino.vol) {
		return
	}
	ino.vol = append([]byte{}, ino.vol[:n]...)
	ino.dur = append([]byte{}, ino.vol...)
	ino.durShared = false
	ino.pend = nil
}

// RemoveFile removes a file outright (durably).
func (d *Disk) RemoveFile(name string) {
	d.mu.Lock()
	defer d.mu.Unlock()
	delete(d.files, name)
	delete(d.durDir, name)
}

// SetMeta replaces the committed persistent state (corruption workloads).
func (d *Disk) SetMeta(st types.PersistentState) {
	d.mu.Lock()
	defer d.mu.Unlock()
	nm := *d.meta
	nm.Init = true
	nm.State = copyState(st)
	d.meta = &nm
}
