package simfs

import (
	"crypto/sha1"
	"encoding/binary"
	"fmt"
	"math/rand"
	"sort"
)

// Snapshot is an immutable copy of a Disk's crash-relevant state.
type Snapshot struct {
	beh     Behaviour
	inodes  map[int]*inodeSnap
	files   map[string]int // volatile names -> inode id
	durDir  map[string]int
	dirOps  []dirOpSnap
	meta    *MetaState
	nextIno int
	hist    *History
}

type inodeSnap struct {
	id     int
	dur    []byte
	pend   []pwrite
	volLen int
	synced bool
}

type dirOpSnap struct {
	create bool
	name   string
	ino    int
}

// SnapshotLocked must only be called from a Hook method.
func (d *Disk) SnapshotLocked() *Snapshot {
	s := &Snapshot{beh: d.beh, inodes: map[int]*inodeSnap{}, files: map[string]int{}, durDir: map[string]int{},
		meta: d.meta, nextIno: d.nextIno, hist: d.Hist.clone()}
	add := func(ino *inode) int {
		if _, ok := s.inodes[ino.id]; !ok {
			ino.durShared = true
			s.inodes[ino.id] = &inodeSnap{id: ino.id, dur: ino.dur, pend: ino.pend[:len(ino.pend):len(ino.pend)], volLen: len(ino.vol), synced: ino.synced}
		}
		return ino.id
	}
	for n, ino := range d.files {
		s.files[n] = add(ino)
	}
	for n, ino := range d.durDir {
		s.durDir[n] = add(ino)
	}
	for _, op := range d.dirOps {
		s.dirOps = append(s.dirOps, dirOpSnap{op.create, op.name, add(op.ino)})
	}
	return s
}

func (d *Disk) Snapshot() *Snapshot {
	d.mu.Lock()
	defer d.mu.Unlock()
	return d.SnapshotLocked()
}

// Piece is an 8-byte-aligned slice of a pending write.
type Piece struct {
	Ino  int
	Off  int64
	Data []byte
}

// Pending describes what a power loss could drop at this snapshot.
type Pending struct {
	Pieces []Piece // in issue order
	DirOps int
}

func (s *Snapshot) pieces(is *inodeSnap) []Piece {
	var out []Piece
	for _, w := range is.pend {
		off := w.off
		data := w.data
		for len(data) > 0 {
			n := int(8 - off%8)
			if n > len(data) {
				n = len(data)
			}
			out = append(out, Piece{Ino: is.id, Off: off, Data: data[:n]})
			off += int64(n)
			data = data[n:]
		}
	}
	return out
}

func (s *Snapshot) sortedInodes() []*inodeSnap {
	ids := make([]int, 0, len(s.inodes))
	for id := range s.inodes {
		ids = append(ids, id)
	}
	sort.Ints(ids)
	out := make([]*inodeSnap, len(ids))
	for i, id := range ids {
		out[i] = s.inodes[id]
	}
	return out
}

// PendingInfo returns all pending pieces (over all inodes, inode order then
// issue order) and the number of pending directory operations.
func (s *Snapshot) PendingInfo() Pending {
	var p Pending
	for _, is := range s.sortedInodes() {
		p.Pieces = append(p.Pieces, s.pieces(is)...)
	}
	p.DirOps = len(s.dirOps)
	return p
}

// Variant selects which pending effects reach the disk in a crash image.
type Variant struct {
	Kill bool // process death only: everything survives and stays pending
	// KeepPiece decides for the i-th pending piece (PendingInfo order) whether it reached disk.
	KeepPiece func(i, n int) bool
	// KeepDirOp decides for the i-th pending directory operation.
	KeepDirOp func(i, n int) bool
	// FullLength: files keep their volatile length; otherwise the durable length
	// extended to cover the pieces that were kept.
	FullLength bool
	Name       string
}

// Image materialises a crash image as a fresh Disk (no hook, no open handles).
func (s *Snapshot) Image(v Variant) *Disk {
	d := New(s.beh)
	d.meta = s.meta
	d.nextIno = s.nextIno
	d.Hist = s.hist.clone()
	inos := map[int]*inode{}
	if v.Kill {
		for id, is := range s.inodes {
			ino := &inode{id: id, dur: is.dur, synced: is.synced, durShared: true}
			ino.vol = make([]byte, is.volLen)
			copy(ino.vol, is.dur)
			for _, w := range is.pend {
				end := w.off + int64(len(w.data))
				if end > int64(len(ino.vol)) {
					nv := make([]byte, end)
					copy(nv, ino.vol)
					ino.vol = nv
				}
				copy(ino.vol[w.off:], w.data)
			}
			ino.pend = is.pend[:len(is.pend):len(is.pend)]
			inos[id] = ino
		}
		for n, id := range s.files {
			d.files[n] = inos[id]
		}
		for n, id := range s.durDir {
			d.durDir[n] = inos[id]
		}
		for _, op := range s.dirOps {
			d.dirOps = append(d.dirOps, dirOp{op.create, op.name, inos[op.ino]})
		}
		return d
	}
	// power loss: pieces
	all := s.PendingInfo()
	keepByIno := map[int][]Piece{}
	for i, p := range all.Pieces {
		if v.KeepPiece == nil || v.KeepPiece(i, len(all.Pieces)) {
			keepByIno[p.Ino] = append(keepByIno[p.Ino], p)
		}
	}
	for id, is := range s.inodes {
		length := len(is.dur)
		if v.FullLength {
			length = is.volLen
		}
		for _, p := range keepByIno[id] {
			if e := int(p.Off) + len(p.Data); e > length {
				length = e
			}
		}
		b := make([]byte, length)
		copy(b, is.dur)
		for _, p := range keepByIno[id] {
			copy(b[p.Off:], p.Data)
		}
		inos[id] = &inode{id: id, vol: b, dur: append([]byte(nil), b...), synced: true}
	}
	dir := map[string]*inode{}
	for n, id := range s.durDir {
		dir[n] = inos[id]
	}
	for i, op := range s.dirOps {
		if v.KeepDirOp != nil && !v.KeepDirOp(i, len(s.dirOps)) {
			continue
		}
		if op.create {
			dir[op.name] = inos[op.ino]
		} else if dir[op.name] == inos[op.ino] {
			delete(dir, op.name)
		}
	}
	for n, ino := range dir {
		d.files[n] = ino
		d.durDir[n] = ino
	}
	return d
}

// Hash identifies the observable content of a Disk (file names, volatile bytes,
// pending-ness, meta) for counting distinct images.
func (d *Disk) Hash() string {
	d.mu.Lock()
	defer d.mu.Unlock()
	h := sha1.New()
	names := d.listLocked()
	var b8 [8]byte
	for _, n := range names {
		ino := d.files[n]
		h.Write([]byte(n))
		binary.LittleEndian.PutUint64(b8[:], uint64(len(ino.vol)))
		h.Write(b8[:])
		h.Write(ino.vol)
		binary.LittleEndian.PutUint64(b8[:], uint64(len(ino.pend)))
		h.Write(b8[:])
	}
	fmt.Fprintf(h, "|%d|%v|%d", len(d.dirOps), d.meta.State, len(d.meta.Stable))
	return string(h.Sum(nil)[:10])
}

// StaleBytesAfter reports whether file name has any non-zero byte at or after off.
func (d *Disk) StaleBytesAfter(name string, off int) bool {
	d.mu.Lock()
	defer d.mu.Unlock()
	ino := d.files[name]
	if ino == nil {
		return false
	}
	for i := off; i < len(ino.vol); i++ {
		if ino.vol[i] != 0 {
			return true
		}
	}
	return false
}

// ---- variant generators ----

func keepAll(int, int) bool  { return true }
func keepNone(int, int) bool { return false }

// StandardVariants returns the structured variants for a snapshot with nPieces
// pending pieces and nDir pending directory operations. rng picks the random
// subsets; budget bounds how many are produced (<=0: no bound). exhaustiveMax is
// the largest piece count for which all 2^n subsets are enumerated.
func StandardVariants(nPieces, nDir int, rng *rand.Rand, budget int, exhaustiveMax int, salt int64) []Variant {
	var vs []Variant
	add := func(v Variant) { vs = append(vs, v) }
	add(Variant{Kill: true, Name: "kill"})
	if nPieces == 0 && nDir == 0 {
		add(Variant{Name: "durable", KeepPiece: keepAll, KeepDirOp: keepAll})
		return vs
	}
	dirChoices := []struct {
		name string
		f    func(int, int) bool
	}{{"dirall", keepAll}}
	if nDir > 0 {
		dirChoices = append(dirChoices, struct {
			name string
			f    func(int, int) bool
		}{"dirnone", keepNone})
		if nDir > 1 {
			for j := 0; j < nDir; j++ {
				j := j
				dirChoices = append(dirChoices, struct {
					name string
					f    func(int, int) bool
				}{fmt.Sprintf("dironly:%d", j), func(i, n int) bool { return i == j }},
					struct {
						name string
						f    func(int, int) bool
					}{fmt.Sprintf("dirdrop:%d", j), func(i, n int) bool { return i != j }})
			}
		}
	}
	type pc struct {
		name string
		f    func(int, int) bool
	}
	var pcs []pc
	pcs = append(pcs, pc{"none", keepNone}, pc{"all", keepAll})
	if nPieces > 0 {
		if nPieces <= exhaustiveMax {
			for m := 1; m < (1<<nPieces)-1; m++ {
				m := m
				pcs = append(pcs, pc{fmt.Sprintf("mask:%x", m), func(i, n int) bool { return m&(1<<i) != 0 }})
			}
		} else {
			for p := 1; p < nPieces; p++ {
				p := p
				pcs = append(pcs, pc{fmt.Sprintf("prefix:%d", p), func(i, n int) bool { return i < p }})
			}
			for j := 0; j < nPieces; j++ {
				j := j
				pcs = append(pcs, pc{fmt.Sprintf("drop:%d", j), func(i, n int) bool { return i != j }})
			}
			for j := 0; j < nPieces; j++ {
				j := j
				pcs = append(pcs, pc{fmt.Sprintf("only:%d", j), func(i, n int) bool { return i == j }})
			}
			pcs = append(pcs, pc{"suffix-half", func(i, n int) bool { return i >= n/2 }})
			for r := 0; r < 6; r++ {
				seed := salt*1000003 + int64(r)
				prob := []float64{0.5, 0.2, 0.8, 0.5, 0.9, 0.1}[r]
				pcs = append(pcs, pc{fmt.Sprintf("rand:%d", r), func(i, n int) bool {
					x := rand.New(rand.NewSource(seed + int64(i)*7919)).Float64()
					return x < prob
				}})
			}
		}
	}
	for _, dc := range dirChoices {
		for _, p := range pcs {
			for _, full := range []bool{false, true} {
				if full && nPieces == 0 && nDir == 0 {
					continue
				}
				add(Variant{Name: fmt.Sprintf("%s/%s/full=%v", dc.name, p.name, full), KeepPiece: p.f, KeepDirOp: dc.f, FullLength: full})
			}
		}
	}
	if budget > 0 && len(vs) > budget {
		// a seeded sample: about a third from the extreme variants (kill, nothing
		// pending reached disk, everything did), the rest from the torn ones
		var forced, rest []Variant
		for _, v := range vs {
			if v.Kill || v.Name == "dirall/none/full=false" || v.Name == "dirall/all/full=true" ||
				v.Name == "dirall/drop:0/full=true" || v.Name == fmt.Sprintf("dirall/prefix:%d/full=true", nPieces-1) ||
				v.Name == fmt.Sprintf("dirall/only:%d/full=true", nPieces-1) || v.Name == "dirall/suffix-half/full=true" {
				forced = append(forced, v)
			} else {
				rest = append(rest, v)
			}
		}
		rng.Shuffle(len(forced), func(i, j int) { forced[i], forced[j] = forced[j], forced[i] })
		rng.Shuffle(len(rest), func(i, j int) { rest[i], rest[j] = rest[j], rest[i] })
		nf := (budget + 2) / 3
		if nf > len(forced) {
			nf = len(forced)
		}
		out := append([]Variant{}, forced[:nf]...)
		for _, v := range rest {
			if len(out) >= budget {
				break
			}
			out = append(out, v)
		}
		for _, v := range forced[nf:] {
			if len(out) >= budget {
				break
			}
			out = append(out, v)
		}
		vs = out
	}
	return vs
}
