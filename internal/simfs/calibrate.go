package simfs

import (
	"fmt"
	"os"
	"sync"

	"github.com/hashicorp/raft-wal/fs"

	"verif/internal/hooks"
)

// Calibrate drives the production fs package on a temporary directory and
// derives, from its verif hook events, how it treats file and directory syncs.
// simfs then mirrors that, so that e.g. removing the directory fsync from
// fs/file.go makes the simulated disk lose never-dir-synced files too. (That the
// hook events correspond to real syscalls is checked by C07 with strace.)
func Calibrate() Behaviour {
	dir, err := os.MkdirTemp("", "verif-calib-")
	if err != nil {
		panic(fmt.Sprintf("HARNESS-ERROR calibrate: %v", err))
	}
	defer os.RemoveAll(dir)
	var mu sync.Mutex
	var events []string
	remove := hooks.OnFS(func(point string, arg any) {
		mu.Lock()
		events = append(events, point)
		mu.Unlock()
	})
	defer remove()
	take := func() map[string]int {
		mu.Lock()
		defer mu.Unlock()
		m := map[string]int{}
		for _, e := range events {
			m[e]++
		}
		events = nil
		return m
	}
	var b Behaviour
	v := fs.New()
	f, err := v.Create(dir, "a.wal", 4096)
	if err != nil {
		panic(fmt.Sprintf("HARNESS-ERROR calibrate create: %v", err))
	}
	if st, err := os.Stat(dir + "/a.wal"); err == nil && st.Size() == 4096 {
		buf := make([]byte, 4096)
		n, _ := f.ReadAt(buf, 0)
		zero := n == 4096
		for _, x := range buf {
			if x != 0 {
				zero = false
			}
		}
		b.CreatePreallocates = zero
	}
	if _, err := v.Create(dir, "a.wal", 4096); err != nil {
		b.CreateExclusive = true
	}
	take()
	f.WriteAt([]byte("hello"), 0)
	f.Sync()
	ev := take()
	b.SyncSyncsFile = ev["fs.fsync.file"] > 0
	b.CreatedFirstSyncSyncsDir = ev["fs.fsync.dir"] > 0
	f.WriteAt([]byte("world"), 8)
	f.Sync()
	ev = take()
	b.CreatedLaterSyncSyncsDir = ev["fs.fsync.dir"] > 0
	f.Close()
	g, err := v.OpenWriter(dir, "a.wal")
	if err == nil {
		g.WriteAt([]byte("again"), 16)
		g.Sync()
		ev = take()
		b.ReopenedSyncSyncsDir = ev["fs.fsync.dir"] > 0
		g.Close()
	}
	take()
	if err := v.Delete(dir, "a.wal"); err == nil {
		ev = take()
		b.DeleteSyncsDir = ev["fs.fsync.dir"] > 0
	}
	return b
}
