// Package gen holds the seeded, boundary-biased generators for entries,
// batches and operation sequences.
package gen

import (
	"encoding/binary"
	"fmt"
	"hash/crc32"
	"math/rand"
	"time"

	"github.com/hashicorp/raft"
)

// Op is one API-level operation of a workload (JSON-able for replay files).
type Op struct {
	Kind string      `json:"kind"` // append | delete | reopen | set | setu64
	Logs []*raft.Log `json:"logs,omitempty"`
	Min  uint64      `json:"min,omitempty"`
	Max  uint64      `json:"max,omitempty"`
	Key  []byte      `json:"key,omitempty"`
	Val  []byte      `json:"val,omitempty"`
	U64  uint64      `json:"u64,omitempty"`
}

func (o Op) String() string {
	switch o.Kind {
	case "append":
		if len(o.Logs) == 0 {
			return "append[]"
		}
		sz := 0
		for _, l := range o.Logs {
			sz += len(l.Data)
		}
		return fmt.Sprintf("append[%d..%d n=%d bytes=%d]", o.Logs[0].Index, o.Logs[len(o.Logs)-1].Index, len(o.Logs), sz)
	case "delete":
		return fmt.Sprintf("delete[%d,%d]", o.Min, o.Max)
	case "set":
		return fmt.Sprintf("set[%q=%d bytes]", o.Key, len(o.Val))
	case "setu64":
		return fmt.Sprintf("setu64[%q=%d]", o.Key, o.U64)
	}
	return o.Kind
}

// Brief renders an op list compactly.
func Brief(ops []Op) []string {
	out := make([]string, len(ops))
	for i, o := range ops {
		out[i] = o.String()
	}
	return out
}

var castagnoli = crc32.MakeTable(crc32.Castagnoli)

// Entry builds a log entry whose Data starts with a unique tag (so a read
// identifies the write it observed) and is exactly size bytes long.
func Entry(rng *rand.Rand, index uint64, tag string, size int) *raft.Log {
	l := &raft.Log{Index: index, Term: 1 + uint64(rng.Intn(5)), Type: raft.LogType(rng.Intn(4))}
	if size > 0 {
		d := make([]byte, size)
		p := fmt.Sprintf("%s#%d|", tag, index)
		n := copy(d, p)
		for i := n; i < size; i++ {
			d[i] = byte('a' + (i*7+int(index))%26)
		}
		l.Data = d
	}
	switch rng.Intn(4) {
	case 0:
		l.Extensions = []byte(fmt.Sprintf("x%s", tag))
	case 1:
		l.Extensions = []byte{}
	}
	switch rng.Intn(4) {
	case 0:
		l.AppendedAt = time.Unix(1600000000+int64(index%100000), int64(rng.Intn(1e9))).UTC()
	case 1:
		l.AppendedAt = time.Unix(1700000000+int64(index%100000), 0).In(time.FixedZone("", (rng.Intn(27)-13)*3600+rng.Intn(2)*1800))
	case 2:
		l.AppendedAt = time.Time{}
	default:
		l.AppendedAt = time.Unix(int64(rng.Intn(2000000000)), int64(rng.Intn(1000))*1000000)
	}
	return l
}

// FrameShaped returns size bytes that look like valid segment frames (an entry
// frame, optionally an index frame, and a commit frame with a correct CRC-32C
// over the preceding bytes), so that stale copies of it behind a rewound write
// offset resemble a committed batch.
func FrameShaped(rng *rand.Rand, size int) []byte {
	if size < 24 {
		b := make([]byte, size)
		if size > 0 {
			b[0] = byte(1 + rng.Intn(3))
		}
		return b
	}
	b := make([]byte, 0, size)
	hdr := func(typ byte, v uint32) []byte {
		h := make([]byte, 8)
		h[0] = typ
		binary.LittleEndian.PutUint32(h[4:], v)
		return h
	}
	payload := size - 16
	payload &^= 7
	inner := make([]byte, payload)
	for i := range inner {
		inner[i] = byte('A' + i%23)
	}
	b = append(b, hdr(1, uint32(payload))...)
	b = append(b, inner...)
	crc := crc32.Checksum(b, castagnoli)
	if rng.Intn(2) == 0 {
		crc = 0
	}
	b = append(b, hdr(3, crc)...)
	for len(b) < size {
		b = append(b, 0)
	}
	return b[:size]
}

// SizeClass picks an entry payload size biased to the interesting boundaries.
func SizeClass(rng *rand.Rand, segSize int) int {
	switch rng.Intn(12) {
	case 0:
		return 0
	case 1:
		return 1 + rng.Intn(8)
	case 2, 3, 4, 5:
		return 8 + rng.Intn(40)
	case 6, 7:
		return 40 + rng.Intn(100)
	case 8:
		return segSize/2 + rng.Intn(16) - 8
	case 9:
		return segSize + rng.Intn(64) // larger than a whole segment
	default:
		return rng.Intn(24)
	}
}

// AlignedFrameShaped builds Data for an entry whose codec prefix (index, term,
// type, length varints) is 4 bytes long, such that the entry's *payload*, read
// from its first byte as if it were a frame stream, parses as valid frames: the
// first 8 payload bytes are [index term type len 0 0 0 0], i.e. a frame header
// of type index (1 entry / 2 index / 3 commit) with length/CRC 0, followed by an
// entry frame and a commit frame whose CRC-32C covers exactly that entry frame.
// The caller must keep Term and Type below 128. len(Data) is 4+8+p+8 < 128.
func AlignedFrameShaped(rng *rand.Rand) []byte {
	p := 8 * (1 + rng.Intn(10))
	b := []byte{0, 0, 0, 0}
	fr := make([]byte, 8+p)
	fr[0] = 1
	binary.LittleEndian.PutUint32(fr[4:], uint32(p))
	for i := 8; i < len(fr); i++ {
		fr[i] = byte('f' + i%11)
	}
	b = append(b, fr...)
	c := make([]byte, 8)
	c[0] = 3
	binary.LittleEndian.PutUint32(c[4:], crc32.Checksum(fr, castagnoli))
	return append(b, c...)
}
