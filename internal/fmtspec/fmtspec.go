// Package fmtspec is an independent encoder/decoder of the segment file format,
// written from README.md ("Storage Format Overview") only. It shares no code
// with the segment package.
package fmtspec

import (
	"encoding/binary"
	"fmt"
	"hash/crc32"
)

const (
	Magic      = 0x58eb6b0d
	HeaderLen  = 32
	FrameHdr   = 8
	TypeEntry  = 1
	TypeIndex  = 2
	TypeCommit = 3
)

var castagnoli = crc32.MakeTable(crc32.Castagnoli)

type Header struct {
	Magic     uint32
	Reserved  [3]byte
	Vsn       uint8
	BaseIndex uint64
	SegmentID uint64
	Codec     uint64
}

// Batch is what one commit frame closes.
type Batch struct {
	Entries      [][]byte // payloads of the entry frames, in order
	EntryOffsets []uint32 // file offset of each entry frame header
	HasIndex     bool
	Index        []uint32 // index frame payload (file offsets)
	IndexPayload uint32   // file offset of the index frame's payload (after its header)
	CRC          uint32
	CommitOffset uint32 // file offset of the commit frame header
}

type Segment struct {
	Header  Header
	Batches []Batch
	End     int // offset just past the last commit frame
}

func pad8(n int) int { return (8 - n%8) % 8 }

// FileName formats "<BaseIndex 20 decimal digits>-<SegmentID 16 hex digits>.wal".
func FileName(base, id uint64) string { return fmt.Sprintf("%020d-%016x.wal", base, id) }

// Decode parses a segment file strictly: every rule of the README that can be
// checked on the bytes is checked, and the first problem is returned.
func Decode(b []byte) (*Segment, error) {
	if len(b) < HeaderLen {
		return nil, fmt.Errorf("file shorter than the 32-byte header")
	}
	s := &Segment{}
	s.Header.Magic = binary.LittleEndian.Uint32(b[0:4])
	copy(s.Header.Reserved[:], b[4:7])
	s.Header.Vsn = b[7]
	s.Header.BaseIndex = binary.LittleEndian.Uint64(b[8:16])
	s.Header.SegmentID = binary.LittleEndian.Uint64(b[16:24])
	s.Header.Codec = binary.LittleEndian.Uint64(b[24:32])
	if s.Header.Magic != Magic {
		return nil, fmt.Errorf("magic %#x, want %#x", s.Header.Magic, Magic)
	}
	if s.Header.Vsn != 0 {
		return nil, fmt.Errorf("version %d, want 0", s.Header.Vsn)
	}
	if s.Header.Reserved != [3]byte{} {
		return nil, fmt.Errorf("reserved header bytes not zero")
	}
	off := HeaderLen
	crcStart := 0 // the first commit covers everything written since the file was created
	cur := Batch{}
	s.End = HeaderLen
	for off+FrameHdr <= len(b) {
		typ := b[off]
		if typ == 0 {
			break // unwritten space
		}
		if b[off+1] != 0 || b[off+2] != 0 || b[off+3] != 0 {
			return s, fmt.Errorf("frame at %d: reserved bytes not zero", off)
		}
		v := binary.LittleEndian.Uint32(b[off+4 : off+8])
		switch typ {
		case TypeEntry, TypeIndex:
			end := off + FrameHdr + int(v)
			if end+pad8(int(v)) > len(b) {
				return s, fmt.Errorf("frame at %d: length %d runs past the end of the file", off, v)
			}
			for i := end; i < end+pad8(int(v)); i++ {
				if b[i] != 0 {
					return s, fmt.Errorf("frame at %d: padding byte at %d is %#x, must be zero", off, i, b[i])
				}
			}
			payload := b[off+FrameHdr : end]
			if typ == TypeEntry {
				if cur.HasIndex {
					return s, fmt.Errorf("entry frame at %d after an index frame in the same batch", off)
				}
				cur.Entries = append(cur.Entries, payload)
				cur.EntryOffsets = append(cur.EntryOffsets, uint32(off))
			} else {
				if v%4 != 0 {
					return s, fmt.Errorf("index frame at %d: length %d not a multiple of 4", off, v)
				}
				cur.HasIndex = true
				cur.IndexPayload = uint32(off + FrameHdr)
				for i := 0; i < int(v); i += 4 {
					cur.Index = append(cur.Index, binary.LittleEndian.Uint32(payload[i:]))
				}
			}
			off = end + pad8(int(v))
		case TypeCommit:
			want := crc32.Checksum(b[crcStart:off], castagnoli)
			if v != want {
				// a torn / unacknowledged batch: stop here, it is not part of the committed prefix
				return s, fmt.Errorf("commit frame at %d: CRC %#x, CRC-32C of bytes [%d,%d) is %#x", off, v, crcStart, off, want)
			}
			cur.CRC = v
			cur.CommitOffset = uint32(off)
			s.Batches = append(s.Batches, cur)
			cur = Batch{}
			off += FrameHdr
			crcStart = off
			s.End = off
		default:
			return s, fmt.Errorf("frame at %d: unknown type %d", off, typ)
		}
	}
	return s, nil
}

// Encode produces the bytes of a segment holding the given batches, up to and
// including the last commit frame.
func Encode(h Header, batches []Batch) []byte {
	b := make([]byte, HeaderLen)
	binary.LittleEndian.PutUint32(b[0:4], Magic)
	b[7] = 0
	binary.LittleEndian.PutUint64(b[8:16], h.BaseIndex)
	binary.LittleEndian.PutUint64(b[16:24], h.SegmentID)
	binary.LittleEndian.PutUint64(b[24:32], h.Codec)
	crcStart := 0
	var offsets []uint32
	frame := func(typ byte, v uint32, payload []byte) {
		hd := make([]byte, FrameHdr)
		hd[0] = typ
		binary.LittleEndian.PutUint32(hd[4:], v)
		b = append(b, hd...)
		b = append(b, payload...)
		b = append(b, make([]byte, pad8(len(payload)))...)
	}
	for _, bt := range batches {
		for _, e := range bt.Entries {
			offsets = append(offsets, uint32(len(b)))
			frame(TypeEntry, uint32(len(e)), e)
		}
		if bt.HasIndex {
			p := make([]byte, 4*len(offsets))
			for i, o := range offsets {
				binary.LittleEndian.PutUint32(p[4*i:], o)
			}
			frame(TypeIndex, uint32(len(p)), p)
		}
		crc := crc32.Checksum(b[crcStart:], castagnoli)
		frame(TypeCommit, crc, nil)
		crcStart = len(b)
	}
	return b
}
