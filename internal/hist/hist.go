// Package hist records single-writer / many-reader histories at the API
// boundary with tickets from one logical clock and checks them against the
// writer's versions, in two independent ways (interval check, porcupine).
package hist

import (
	"fmt"
	"sync"
	"sync/atomic"
	"time"

	"github.com/anishathalye/porcupine"
	"github.com/hashicorp/raft"

	"verif/internal/model"
)

var clock atomic.Int64

// Ticket returns the next tick of the logical clock.
func Ticket() int64 { return clock.Add(1) }

// WriteOp is one call of the single writer; it produces version Index (1-based).
type WriteOp struct {
	Kind       string // append | delete-head | delete-tail | delete-all | reappend | reset
	Call, Ret  int64
	SyncDone   int64 // ticket when the batch's fsync had returned (appends only; 0 unknown)
	Version    *model.Log
	Desc       string
	FirstBatch uint64 // appends: indexes written
	LastBatch  uint64
	Removed    [2]uint64 // truncations: inclusive removed range (0,0 none)
	Err        string
}

// ReadOp is one reader call.
type ReadOp struct {
	Reader    int
	Kind      string // get | first | last
	Index     uint64
	Call, Ret int64
	Val       uint64    // first/last
	Log       *raft.Log // get: nil = not found
	Err       string    // error other than not-found
	ParkedAt  string    // hook point it was parked at (directed scripts)
}

// History is one recorded execution.
type History struct {
	mu     sync.Mutex
	V0     *model.Log
	Writes []*WriteOp
	Reads  []*ReadOp
}

func (h *History) AddRead(r *ReadOp) {
	h.mu.Lock()
	h.Reads = append(h.Reads, r)
	h.mu.Unlock()
}

// answer computes what version v answers to read r, as a comparable string.
func answer(v *model.Log, r *ReadOp) string {
	switch r.Kind {
	case "first":
		return fmt.Sprint("v", v.First)
	case "last":
		return fmt.Sprint("v", v.Last)
	}
	e := v.Ents[r.Index]
	if e == nil {
		return "notfound"
	}
	return "e:" + fingerprint(e.Log)
}

func observed(r *ReadOp) string {
	if r.Err != "" {
		return "err:" + r.Err
	}
	switch r.Kind {
	case "first", "last":
		return fmt.Sprint("v", r.Val)
	}
	if r.Log == nil {
		return "notfound"
	}
	return "e:" + fingerprint(r.Log)
}

func fingerprint(l *raft.Log) string {
	return fmt.Sprintf("%d/%d/%d/%x/%x/%d", l.Index, l.Term, l.Type, l.Data, l.Extensions, l.AppendedAt.UnixNano())
}

// Verdict of checking one read.
type Verdict struct {
	Read       *ReadOp
	Candidates []int // version numbers that could have been current during the read
	Reason     string
}

// versions returns V0..Vn.
func (h *History) versions() []*model.Log {
	vs := []*model.Log{h.V0}
	for _, w := range h.Writes {
		vs = append(vs, w.Version)
	}
	return vs
}

// IntervalCheck is the exact single-writer check. It returns the violating
// reads and, for statistics, how many reads had >= 2 candidate versions.
func (h *History) IntervalCheck() (bad []Verdict, multi int, overlap map[string]int) {
	vs := h.versions()
	n := len(h.Writes)
	overlap = map[string]int{}
	for _, r := range h.Reads {
		var cands []int
		for j := 0; j <= n; j++ {
			began := int64(0)
			if j > 0 {
				began = h.Writes[j-1].Call
			}
			if began > r.Ret {
				continue // version j did not exist before the read returned
			}
			if j < n && h.Writes[j].Ret < r.Call {
				continue // version j+1 was complete before the read began
			}
			cands = append(cands, j)
		}
		if len(cands) > 1 {
			multi++
			for _, j := range cands[1:] {
				overlap[r.Kind+"/"+h.Writes[j-1].Kind+"/"+r.ParkedAt]++
			}
		}
		obs := observed(r)
		ok := false
		for _, j := range cands {
			if answer(vs[j], r) == obs {
				ok = true
				break
			}
		}
		if r.Err != "" {
			// legal only for an index that an overlapping truncation removed
			ok = false
			for _, j := range cands {
				if j == 0 {
					continue
				}
				w := h.Writes[j-1]
				if w.Removed != [2]uint64{} && r.Kind == "get" && r.Index >= w.Removed[0] && r.Index <= w.Removed[1] && w.Call <= r.Ret && w.Ret >= r.Call {
					ok = true
				}
			}
			if !ok {
				bad = append(bad, Verdict{r, cands, "error other than not-found for an index no overlapping truncation removed: " + r.Err})
				continue
			}
		}
		if !ok {
			var want []string
			for _, j := range cands {
				want = append(want, fmt.Sprintf("v%d:%s", j, short(answer(vs[j], r))))
			}
			bad = append(bad, Verdict{r, cands, fmt.Sprintf("returned %s which no candidate version gives (%v)", short(obs), want)})
			continue
		}
		// visible before durable
		if r.Kind == "get" && r.Log != nil {
			for j := 1; j <= n; j++ {
				w := h.Writes[j-1]
				if w.SyncDone != 0 && r.Index >= w.FirstBatch && r.Index <= w.LastBatch && w.Version.Ents[r.Index] != nil &&
					fingerprint(w.Version.Ents[r.Index].Log) == fingerprint(r.Log) && r.Ret < w.SyncDone {
					bad = append(bad, Verdict{r, cands, fmt.Sprintf("entry %d of batch %d was returned at tick %d, before the batch's fsync had completed (tick %d)", r.Index, j, r.Ret, w.SyncDone)})
				}
			}
		}
		if (r.Kind == "last") && r.Err == "" {
			for j := 1; j <= n; j++ {
				w := h.Writes[j-1]
				if w.SyncDone != 0 && (w.Kind == "append" || w.Kind == "reappend" || w.Kind == "reset") && r.Val >= w.FirstBatch && r.Val <= w.LastBatch && r.Ret < w.SyncDone && w.Call <= r.Ret {
					// LastIndex exposes the batch; only a violation if no older version has this last index
					older := false
					for _, k := range cands {
						if k < j && vs[k].Last == r.Val {
							older = true
						}
					}
					if !older {
						bad = append(bad, Verdict{r, cands, fmt.Sprintf("LastIndex=%d exposed batch %d before its fsync completed", r.Val, j)})
					}
				}
			}
		}
	}
	return bad, multi, overlap
}

func short(s string) string {
	if len(s) > 60 {
		return s[:60] + "…"
	}
	return s
}

type pIn struct {
	Write bool
	N     int // writer op number (1-based)
	R     *ReadOp
}

// Porcupine checks the same history with porcupine: state = version number.
func (h *History) Porcupine(timeout time.Duration) (porcupine.CheckResult, int) {
	vs := h.versions()
	m := porcupine.Model{
		Init: func() any { return 0 },
		Step: func(state, in, out any) (bool, any) {
			s := state.(int)
			i := in.(pIn)
			if i.Write {
				if s == i.N-1 {
					return true, i.N
				}
				return false, s
			}
			if i.R.Err != "" {
				return true, s // errors are judged by the interval check only
			}
			return answer(vs[s], i.R) == out.(string), s
		},
		Equal: func(a, b any) bool { return a.(int) == b.(int) },
	}
	var ops []porcupine.Operation
	for n, w := range h.Writes {
		ops = append(ops, porcupine.Operation{ClientId: 0, Input: pIn{Write: true, N: n + 1}, Call: w.Call, Output: "", Return: w.Ret})
	}
	for _, r := range h.Reads {
		ops = append(ops, porcupine.Operation{ClientId: 1 + r.Reader, Input: pIn{R: r}, Call: r.Call, Output: observed(r), Return: r.Ret})
	}
	res, _ := porcupine.CheckOperationsVerbose(m, ops, timeout)
	return res, len(ops)
}
