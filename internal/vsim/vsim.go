// Package vsim simulates a small raft-like cluster whose nodes each run the
// real verifier.LogStore middleware over an in-memory (or WAL) log store, with
// ground truth kept by the harness.
package vsim

import (
	"errors"
	"fmt"
	"math/rand"
	"runtime"
	"strings"
	"sync"
	"sync/atomic"
	"time"

	"github.com/hashicorp/raft"
	"github.com/hashicorp/raft-wal/verifier"

	"verif/internal/model"
)

// IsCheckpoint marks entries whose Data starts with 'C'.
func IsCheckpoint(l *raft.Log) (bool, error) {
	return len(l.Data) > 0 && l.Data[0] == 'C', nil
}

// Collector counts metrics (thread-safe).
type Collector struct {
	mu sync.Mutex
	M  map[string]uint64
}

func NewCollector() *Collector { return &Collector{M: map[string]uint64{}} }
func (c *Collector) IncrementCounter(n string, d uint64) {
	c.mu.Lock()
	c.M[n] += d
	c.mu.Unlock()
}
func (c *Collector) SetGauge(n string, v uint64) { c.mu.Lock(); c.M[n] = v; c.mu.Unlock() }
func (c *Collector) Get(n string) uint64         { c.mu.Lock(); defer c.mu.Unlock(); return c.M[n] }

// FaultStore wraps the underlying store: at-rest corruption on GetLog and
// injected errors.
type FaultStore struct {
	raft.LogStore
	mu      sync.Mutex
	Corrupt map[uint64]func(*raft.Log) // applied to the returned entry
	FailGet map[uint64]error
	// FailStore, when non-nil, is returned by the next StoreLogs.
	FailStore error
	Gets      atomic.Int64
	// OnGet, when set, is called (on the caller's goroutine, i.e. the verifier's) before
	// the read of index i.
	OnGet atomic.Pointer[func(i uint64)]
}

func (f *FaultStore) GetLog(i uint64, l *raft.Log) error {
	f.Gets.Add(1)
	if cb := f.OnGet.Load(); cb != nil {
		(*cb)(i)
	}
	f.mu.Lock()
	ferr := f.FailGet[i]
	mut := f.Corrupt[i]
	f.mu.Unlock()
	if ferr != nil {
		return ferr
	}
	err := f.LogStore.GetLog(i, l)
	if err == nil && mut != nil {
		mut(l)
	}
	return err
}

func (f *FaultStore) StoreLogs(ls []*raft.Log) error {
	f.mu.Lock()
	e := f.FailStore
	f.FailStore = nil
	f.mu.Unlock()
	if e != nil {
		return e
	}
	return f.LogStore.StoreLogs(ls)
}

// FailNextStore makes the next StoreLogs fail with err (nothing is stored).
func (f *FaultStore) FailNextStore(err error) {
	f.mu.Lock()
	f.FailStore = err
	f.mu.Unlock()
}

func (f *FaultStore) StoreLog(l *raft.Log) error { return f.StoreLogs([]*raft.Log{l}) }

func (f *FaultStore) SetCorrupt(i uint64, m func(*raft.Log)) {
	f.mu.Lock()
	if f.Corrupt == nil {
		f.Corrupt = map[uint64]func(*raft.Log){}
	}
	if m == nil {
		delete(f.Corrupt, i)
	} else {
		f.Corrupt[i] = m
	}
	f.mu.Unlock()
}

// Node is one cluster member.
type Node struct {
	Name    string
	Under   raft.LogStore
	Faulty  *FaultStore
	V       *verifier.LogStore
	Col     *Collector
	Truth   *model.Log           // what the store holds (harness copy)
	Written map[uint64]*raft.Log // what was last passed to this node's StoreLogs for each index
	mu      sync.Mutex
	reports []verifier.VerificationReport
	// Park, when non-nil, makes ReportFn block until the channel is closed.
	park     atomic.Pointer[chan struct{}]
	InReport atomic.Int64 // number of ReportFn invocations entered
	Restarts int
	CPs      uint64 // checkpoints stored through the current middleware instance
	// per middleware instance counters are in Col (reset on restart)
}

func NewNode(name string, under raft.LogStore) *Node {
	n := &Node{Name: name, Under: under, Truth: model.NewLog(), Written: map[uint64]*raft.Log{}}
	n.Faulty = &FaultStore{LogStore: under}
	n.start()
	return n
}

func (n *Node) start() {
	n.Col = NewCollector()
	n.CPs = 0
	n.V = verifier.NewLogStore(n.Faulty, IsCheckpoint, n.reportFn, n.Col)
}

func (n *Node) reportFn(r verifier.VerificationReport) {
	n.InReport.Add(1)
	if p := n.park.Load(); p != nil {
		<-*p
	}
	n.mu.Lock()
	n.reports = append(n.reports, r)
	n.mu.Unlock()
}

// Park makes the node's ReportFn block; the returned func releases it.
func (n *Node) Park() func() {
	ch := make(chan struct{})
	n.park.Store(&ch)
	return func() { n.park.Store(nil); close(ch) }
}

// Restart replaces the middleware (checksum state is lost), keeping the store.
func (n *Node) Restart() {
	// closing the verifier would also close an io.Closer store; InmemStore is not one
	n.V.Close()
	n.Restarts++
	n.start()
}

// Quiesce waits until every checkpoint stored through the current middleware
// has been reported or counted as dropped (decided by counts). If the counts do not
// get there, it falls back to a criterion that does not depend on the accounting being
// right: the middleware's verifier goroutine is parked in its channel receive with
// nothing in progress, i.e. everything that was queued has been verified, delivered and
// counted. Then it returns true and the caller judges the counters as they are. The
// wall-clock bound only guards against a hung run (returns false: inconclusive).
func (n *Node) Quiesce() bool {
	deadline := time.Now().Add(30 * time.Second)
	idleSince := 0
	for i := 0; ; i++ {
		if n.Col.Get("ranges_verified")+n.Col.Get("dropped_reports") >= n.Col.Get("checkpoints_written") {
			return true
		}
		if time.Now().After(deadline) {
			return false
		}
		time.Sleep(20 * time.Microsecond)
		if i > 0 && i%5000 == 0 {
			if n.VerifierIdle() {
				idleSince++
				if idleSince >= 2 {
					return true
				}
			} else {
				idleSince = 0
			}
		}
	}
}

// VerifierIdle reports whether the verifier goroutine of the current middleware is
// blocked receiving from its channel (not inside verify or ReportFn).
func (n *Node) VerifierIdle() bool {
	if n.park.Load() != nil {
		return false
	}
	buf := make([]byte, 4<<20)
	buf = buf[:runtime.Stack(buf, true)]
	want := fmt.Sprintf("verifier.(*LogStore).runVerifier(%p", n.V)
	for _, g := range strings.Split(string(buf), "\n\n") {
		if !strings.Contains(g, want) {
			continue
		}
		head := g
		if i := strings.Index(g, "\n"); i > 0 {
			head = g[:i]
		}
		return strings.Contains(head, "[chan receive") && !strings.Contains(g, ").verify(") && !strings.Contains(g, "reportFn")
	}
	return false
}

// TakeReports returns and clears the delivered reports.
func (n *Node) TakeReports() []verifier.VerificationReport {
	n.mu.Lock()
	defer n.mu.Unlock()
	r := n.reports
	n.reports = nil
	return r
}

func (n *Node) ReportCount() int {
	n.mu.Lock()
	defer n.mu.Unlock()
	return len(n.reports)
}

// Store appends logs through the middleware and updates ground truth.
func (n *Node) Store(logs []*raft.Log) error {
	for _, l := range logs {
		n.Written[l.Index] = model.CopyLog(l)
	}
	err := n.V.StoreLogs(logs)
	if err != nil {
		return err
	}
	for _, l := range logs {
		if ok, _ := IsCheckpoint(l); ok {
			n.CPs++
		}
		// the middleware may have filled Extensions of a leader checkpoint: record what is stored
		n.Written[l.Index] = model.CopyLog(l)
	}
	n.Truth.Append(logs, 0, true)
	return nil
}

func (n *Node) Delete(min, max uint64) error {
	if err := n.V.DeleteRange(min, max); err != nil {
		return err
	}
	if k := n.Truth.ClassifyDelete(min, max); k != model.DelMiddle {
		n.Truth.DeleteRange(min, max)
	}
	return nil
}

// CPRange is the ground truth of one checkpoint as written by its leader.
type CPRange struct {
	End, Start uint64
	Sum        uint64
	Term       uint64
	Leader     string
	Entries    map[uint64]*raft.Log // leader's entries in [Start, End)
}

// Cluster is the simulated cluster.
type Cluster struct {
	Nodes  []*Node
	Leader int
	Term   uint64
	Rng    *rand.Rand
	CPs    map[string]*CPRange // key: end/term
	Events []string
	seq    int
	// counters for evidence
	NTailTrunc, NRestart, NLeaderChange, NHeadTrunc, NCheckpoint int
	// FailProb > 0 makes the underlying store of a node refuse an append now and then
	// (nothing is stored): a follower's batch is then re-sent with a new split, a leader
	// steps down, as raft does. The stores end up holding exactly what the leaders wrote.
	// ForeignCPProb: chance that a leader append is preceded by an attempt to store a checkpoint
	// command carrying foreign Extensions
	ForeignCPProb                   float64
	ForeignRefused, ForeignAccepted int
	FailProb                        float64
	NAppendFail                     int
	// FailedOn[node index] is set when an append failed on that node (cleared by the driver)
	FailedOn map[int]bool
}

// ErrInjected is the transient error of the underlying store.
var ErrInjected = fmt.Errorf("vsim: injected transient append failure")

func (c *Cluster) injectFail(ni int) bool {
	if c.FailProb <= 0 || c.Rng.Float64() >= c.FailProb {
		return false
	}
	n := c.Nodes[ni]
	n.Faulty.mu.Lock()
	n.Faulty.FailStore = ErrInjected
	n.Faulty.mu.Unlock()
	c.NAppendFail++
	if c.FailedOn == nil {
		c.FailedOn = map[int]bool{}
	}
	c.FailedOn[ni] = true
	return true
}

func cpKey(end, term uint64) string { return fmt.Sprintf("%d/%d", end, term) }

func NewCluster(rng *rand.Rand, n int) *Cluster {
	return NewClusterOver(rng, n, func() raft.LogStore { return raft.NewInmemStore() })
}

// NewClusterOver builds a cluster whose nodes keep their logs in stores made by mk
// (e.g. real WALs instead of raft.InmemStore).
func NewClusterOver(rng *rand.Rand, n int, mk func() raft.LogStore) *Cluster {
	c := &Cluster{Rng: rng, Term: 1, CPs: map[string]*CPRange{}}
	for i := 0; i < n; i++ {
		c.Nodes = append(c.Nodes, NewNode(fmt.Sprintf("n%d", i), mk()))
	}
	return c
}

func (c *Cluster) Close() {
	for _, n := range c.Nodes {
		n.V.Close()
	}
}

func (c *Cluster) log(format string, a ...any) {
	if len(c.Events) < 400 {
		c.Events = append(c.Events, fmt.Sprintf(format, a...))
	}
}

func decodeCP(ext []byte) (start, sum uint64, ok bool) {
	if len(ext) < 24 {
		return 0, 0, false
	}
	le := func(b []byte) uint64 {
		var v uint64
		for i := 0; i < 8; i++ {
			v |= uint64(b[i]) << (8 * i)
		}
		return v
	}
	if le(ext[0:8]) != verifier.ExtensionMagicPrefix {
		return 0, 0, false
	}
	return le(ext[8:16]), le(ext[16:24]), true
}

// LeaderAppend appends k entries on the leader; cpAt lists batch positions that
// are checkpoints. It records the ground truth of each checkpoint.
func (c *Cluster) LeaderAppend(k int, cpAt map[int]bool) error {
	ld := c.Nodes[c.Leader]
	next := ld.Truth.Last + 1
	if ld.Truth.Empty() {
		next = 1
	}
	if c.ForeignCPProb > 0 && c.Rng.Float64() < c.ForeignCPProb {
		// a checkpoint command that already carries somebody else's Extensions, after 0-2 plain
		// entries in the same batch. The middleware refuses it (C18's statement); whatever it
		// does, the stores must stay consistent with what the reports later say (C16)
		var batch []*raft.Log
		for i := 0; i < c.Rng.Intn(3); i++ {
			c.seq++
			batch = append(batch, &raft.Log{Index: next + uint64(i), Term: c.Term, Type: raft.LogCommand, Data: []byte(fmt.Sprintf("e%d-t%d-s%d", next+uint64(i), c.Term, c.seq))})
		}
		c.seq++
		batch = append(batch, &raft.Log{Index: next + uint64(len(batch)), Term: c.Term, Type: raft.LogCommand, Data: []byte(fmt.Sprintf("C%d-foreign", c.seq)), Extensions: []byte("client-tag")})
		if err := ld.Store(batch); err != nil {
			for _, l := range batch {
				delete(ld.Written, l.Index)
			}
			c.ForeignRefused++
			c.log("leader %s: checkpoint with foreign Extensions at %d refused", ld.Name, batch[len(batch)-1].Index)
		} else {
			c.ForeignAccepted++
			c.log("leader %s: checkpoint with foreign Extensions at %d ACCEPTED", ld.Name, batch[len(batch)-1].Index)
			next = ld.Truth.Last + 1
		}
	}
	var logs []*raft.Log
	for i := 0; i < k; i++ {
		c.seq++
		l := &raft.Log{Index: next + uint64(i), Term: c.Term, Type: raft.LogCommand, Data: []byte(fmt.Sprintf("e%d-t%d-s%d", next+uint64(i), c.Term, c.seq))}
		switch c.Rng.Intn(8) {
		case 0:
			l.Type = raft.LogNoop
		case 1:
			l.Extensions = []byte("ext")
		case 2:
			l.Data = nil
		case 3:
			// membership changes put configuration entries anywhere in the log; only
			// the bootstrap one at index 1 is exempt from checksumming
			if l.Index > 1 {
				l.Type = raft.LogConfiguration
			}
		case 4:
			l.Type = raft.LogBarrier
		}
		if cpAt[i] {
			l.Type = raft.LogCommand
			l.Data = []byte(fmt.Sprintf("C%d", c.seq))
			l.Extensions = nil
			c.NCheckpoint++
		}
		logs = append(logs, l)
	}
	if c.injectFail(c.Leader) {
		err := ld.Store(logs)
		if err == nil {
			return fmt.Errorf("leader %s: the underlying store refused the batch %d..%d but StoreLogs returned nil", ld.Name, logs[0].Index, logs[len(logs)-1].Index)
		}
		for _, l := range logs {
			delete(ld.Written, l.Index)
			if cpAt[int(l.Index-next)] {
				c.NCheckpoint--
			}
		}
		c.log("leader %s append %d..%d refused by its store; steps down", ld.Name, logs[0].Index, logs[len(logs)-1].Index)
		c.ChangeLeader((c.Leader + 1 + c.Rng.Intn(len(c.Nodes)-1)) % len(c.Nodes))
		return nil
	}
	if err := ld.Store(logs); err != nil {
		return err
	}
	for _, l := range logs {
		if ok, _ := IsCheckpoint(l); ok {
			start, sum, ok := decodeCP(l.Extensions)
			if !ok {
				return fmt.Errorf("leader checkpoint %d has no verification metadata in Extensions (%q)", l.Index, l.Extensions)
			}
			r := &CPRange{End: l.Index, Start: start, Sum: sum, Term: l.Term, Leader: ld.Name, Entries: map[uint64]*raft.Log{}}
			for i := start; i < l.Index; i++ {
				if e := ld.Truth.Ents[i]; e != nil {
					r.Entries[i] = e.Log
				}
			}
			c.CPs[cpKey(l.Index, l.Term)] = r
		}
	}
	c.log("leader %s append %d..%d (cp at %v)", ld.Name, logs[0].Index, logs[len(logs)-1].Index, cpAt)
	return nil
}

// Replicate brings follower f up to `upto` (<= leader's last) in batches of
// random size, truncating a conflicting suffix first (as raft does). mutate, if
// non-nil, may alter an entry in flight (C17).
func (c *Cluster) Replicate(fi int, upto uint64, mutate func(l *raft.Log)) error {
	ld := c.Nodes[c.Leader]
	f := c.Nodes[fi]
	if fi == c.Leader || ld.Truth.Empty() {
		return nil
	}
	if upto > ld.Truth.Last {
		upto = ld.Truth.Last
	}
	// find the first index where f conflicts with (or runs past) the leader
	if !f.Truth.Empty() {
		conflict := uint64(0)
		for i := f.Truth.First; i <= f.Truth.Last; i++ {
			le := ld.Truth.Ents[i]
			if le == nil {
				if i > ld.Truth.Last {
					conflict = i
					break
				}
				continue // leader truncated its head; cannot compare
			}
			if le.Log.Term != f.Truth.Ents[i].Log.Term {
				conflict = i
				break
			}
		}
		if conflict != 0 {
			if conflict == f.Truth.First {
				// whole log conflicts: raft would install a snapshot; emulate by deleting everything
				if err := f.Delete(f.Truth.First, f.Truth.Last); err != nil {
					return err
				}
			} else if err := f.Delete(conflict, f.Truth.Last); err != nil {
				return err
			}
			c.NTailTrunc++
			c.log("follower %s truncates tail from %d", f.Name, conflict)
		}
	}
	next := f.Truth.Last + 1
	if f.Truth.Empty() {
		next = ld.Truth.First
	}
	if next < ld.Truth.First {
		// follower is too far behind (leader compacted): jump, like a snapshot install
		if !f.Truth.Empty() {
			if err := f.Delete(f.Truth.First, f.Truth.Last); err != nil {
				return err
			}
		}
		next = ld.Truth.First
	}
	for next <= upto {
		n := 1 + c.Rng.Intn(5)
		var batch []*raft.Log
		for i := 0; i < n && next <= upto; i++ {
			l := model.CopyLog(ld.Truth.Ents[next].Log)
			if mutate != nil {
				mutate(l)
			}
			batch = append(batch, l)
			next++
		}
		if c.injectFail(fi) {
			if err := f.Store(batch); err == nil {
				return fmt.Errorf("follower %s: the underlying store refused the batch %d..%d but StoreLogs returned nil", f.Name, batch[0].Index, batch[len(batch)-1].Index)
			}
			c.log("follower %s: batch %d..%d refused by its store; re-sent", f.Name, batch[0].Index, batch[len(batch)-1].Index)
			for _, l := range batch {
				delete(f.Written, l.Index)
			}
			next = batch[0].Index
			continue
		}
		if err := f.Store(batch); err != nil {
			return err
		}
		c.log("follower %s stores %d..%d", f.Name, batch[0].Index, batch[len(batch)-1].Index)
	}
	return nil
}

// ChangeLeader elects node ni with a higher term.
func (c *Cluster) ChangeLeader(ni int) {
	c.Leader = ni
	c.Term++
	c.NLeaderChange++
	c.log("leader change -> %s term %d", c.Nodes[ni].Name, c.Term)
}

// QuiesceAll waits for all nodes; false = some node did not quiesce.
func (c *Cluster) QuiesceAll() bool {
	ok := true
	for _, n := range c.Nodes {
		if !n.Quiesce() {
			ok = false
		}
	}
	return ok
}

// Judgement of one delivered report against ground truth.
type Judgement struct {
	Node      string
	Report    verifier.VerificationReport
	Known     bool // ground truth for this checkpoint is known
	Holds     bool // node holds every index of the range
	Equal     bool // ...and each equals the leader's entry
	WroteSame bool // what the node passed to its StoreLogs for the range equals the leader's entries
	Mismatch  bool // report carries ErrChecksumMismatch
	RangeErr  bool // report carries ErrRangeMismatch
	InFlight  bool // message blames in-flight corruption
	CP        *CPRange
}

// Judge evaluates a report delivered on node n (call right after quiescence,
// before the range is touched again).
func (c *Cluster) Judge(n *Node, r verifier.VerificationReport) Judgement {
	j := Judgement{Node: n.Name, Report: r}
	var ecm verifier.ErrChecksumMismatch
	if r.Err != nil {
		j.Mismatch = errors.As(r.Err, &ecm)
		j.RangeErr = errors.Is(r.Err, verifier.ErrRangeMismatch)
		if j.Mismatch {
			j.InFlight = containsStr(string(ecm), "in-flight")
		}
	}
	// which checkpoint is it? the entry at End on this node tells the term
	e := n.Truth.Ents[r.Range.End]
	if e == nil {
		return j
	}
	cp := c.CPs[cpKey(r.Range.End, e.Log.Term)]
	if cp == nil || cp.Start != r.Range.Start {
		return j
	}
	j.Known = true
	j.CP = cp
	j.Holds, j.Equal, j.WroteSame = true, true, true
	for i := cp.Start; i < cp.End; i++ {
		le := cp.Entries[i]
		ne := n.Truth.Ents[i]
		if ne == nil {
			j.Holds = false
			j.Equal = false
		} else if le == nil || model.LogDiff(ne.Log, le) != "" {
			j.Equal = false
		}
		if w := n.Written[i]; w == nil || le == nil || model.LogDiff(w, le) != "" {
			j.WroteSame = false
		}
	}
	return j
}

func containsStr(s, sub string) bool {
	for i := 0; i+len(sub) <= len(s); i++ {
		if s[i:i+len(sub)] == sub {
			return true
		}
	}
	return false
}
