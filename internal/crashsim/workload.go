package crashsim

import (
	"fmt"
	"math/rand"

	"github.com/hashicorp/raft"

	"verif/internal/gen"
	"verif/internal/model"
)

// Weights shapes a generated workload.
type Weights struct {
	Name       string
	MinOps     int
	MaxOps     int
	SegSizes   []int
	Append     int
	HeadTrunc  int
	TailTrunc  int
	DelAll     int
	Reopen     int
	Set        int
	MaxBatch   int
	LowIndexes bool // start at 1..3 (varint bytes collide with frame type bytes)
	FrameShape int  // percent of entries with frame-shaped payloads
	BigEntries int  // percent chance of an entry larger than the segment
}

var Profiles = map[string]Weights{
	"mixed":  {Name: "mixed", MinOps: 10, MaxOps: 32, SegSizes: []int{128, 192, 256, 512, 1024, 4096}, Append: 60, HeadTrunc: 9, TailTrunc: 9, DelAll: 3, Reopen: 8, Set: 8, MaxBatch: 4, FrameShape: 5, BigEntries: 3},
	"chains": {Name: "chains", MinOps: 6, MaxOps: 18, SegSizes: []int{512, 1024, 4096, 8192}, Append: 75, HeadTrunc: 3, TailTrunc: 10, DelAll: 2, Reopen: 6, Set: 2, MaxBatch: 5, LowIndexes: true, FrameShape: 35, BigEntries: 0},
	"seal":   {Name: "seal", MinOps: 8, MaxOps: 24, SegSizes: []int{96, 128, 160, 192, 256}, Append: 62, HeadTrunc: 8, TailTrunc: 14, DelAll: 4, Reopen: 8, Set: 4, MaxBatch: 3, FrameShape: 3, BigEntries: 6},
	"trunc":  {Name: "trunc", MinOps: 10, MaxOps: 28, SegSizes: []int{128, 192, 256, 384, 1024}, Append: 50, HeadTrunc: 17, TailTrunc: 20, DelAll: 6, Reopen: 4, Set: 3, MaxBatch: 4, FrameShape: 3, BigEntries: 2},
}

// Generate builds workload number id of the given profile from seed.
func Generate(w Weights, seed int64, id int) *Workload {
	rng := rand.New(rand.NewSource(seed*1000003 + int64(id)))
	wl := &Workload{ID: id, Seed: seed*1000003 + int64(id), Profile: w.Name}
	wl.SegSize = w.SegSizes[rng.Intn(len(w.SegSizes))]
	nops := w.MinOps + rng.Intn(w.MaxOps-w.MinOps+1)
	l := model.NewLog()
	total := w.Append + w.HeadTrunc + w.TailTrunc + w.DelAll + w.Reopen + w.Set
	start := uint64(1)
	if !w.LowIndexes {
		start = []uint64{1, 1, 1, 2, 3, 100, 1<<32 + 5, 1 << 40}[rng.Intn(8)]
	} else {
		start = []uint64{1, 1, 2, 3}[rng.Intn(4)]
	}
	next := start
	tag := fmt.Sprintf("w%d", id)
	for len(wl.Ops) < nops {
		r := rng.Intn(total)
		switch {
		case r < w.Append || l.Empty() && rng.Intn(3) > 0:
			n := 1 + rng.Intn(w.MaxBatch)
			if l.Empty() {
				if l.Last == 0 && len(wl.Ops) > 0 && rng.Intn(3) == 0 {
					// base-index reset after everything was deleted
					next = next + uint64(rng.Intn(50))
				}
			}
			var logs []*raft.Log
			for i := 0; i < n; i++ {
				sz := gen.SizeClass(rng, wl.SegSize)
				if sz > wl.SegSize && rng.Intn(100) >= w.BigEntries {
					sz = 8 + rng.Intn(40)
				}
				e := gen.Entry(rng, next, fmt.Sprintf("%s.%d", tag, len(wl.Ops)), sz)
				if rng.Intn(100) < w.FrameShape && sz >= 8 {
					e.Data = gen.FrameShaped(rng, sz)
				}
				if w.LowIndexes && next <= 3 && rng.Intn(100) < 2*w.FrameShape {
					e.Data = gen.AlignedFrameShaped(rng)
					e.Term = uint64(1 + rng.Intn(100))
					e.Type = raft.LogType(rng.Intn(4))
				}
				logs = append(logs, e)
				next++
			}
			wl.Ops = append(wl.Ops, gen.Op{Kind: "append", Logs: logs})
			l.Append(logs, len(wl.Ops), true)
		case r < w.Append+w.HeadTrunc:
			if l.Empty() {
				continue
			}
			span := l.Last - l.First + 1
			k := uint64(1 + rng.Intn(int(min(span, 6))))
			mn := l.First
			if rng.Intn(4) == 0 && mn > 1 {
				mn = 0
			}
			mx := l.First + k - 1
			if mx >= l.Last {
				mx = l.Last - 1
				if mx < l.First {
					continue
				}
			}
			wl.Ops = append(wl.Ops, gen.Op{Kind: "delete", Min: mn, Max: mx})
			l.DeleteRange(mn, mx)
		case r < w.Append+w.HeadTrunc+w.TailTrunc:
			if l.Empty() || l.Last == l.First {
				continue
			}
			span := l.Last - l.First
			k := uint64(1 + rng.Intn(int(min(span, 6))))
			mn := l.Last - k + 1
			mx := l.Last
			if rng.Intn(4) == 0 {
				mx = l.Last + uint64(rng.Intn(10))
			}
			wl.Ops = append(wl.Ops, gen.Op{Kind: "delete", Min: mn, Max: mx})
			l.DeleteRange(mn, mx)
			next = l.Last + 1
		case r < w.Append+w.HeadTrunc+w.TailTrunc+w.DelAll:
			if l.Empty() {
				continue
			}
			mn, mx := l.First, l.Last
			if rng.Intn(2) == 0 {
				mn = 0
				mx = l.Last + 5
			}
			wl.Ops = append(wl.Ops, gen.Op{Kind: "delete", Min: mn, Max: mx})
			l.DeleteRange(mn, mx)
		case r < w.Append+w.HeadTrunc+w.TailTrunc+w.DelAll+w.Reopen:
			wl.Ops = append(wl.Ops, gen.Op{Kind: "reopen"})
		default:
			k := []byte(fmt.Sprintf("key%d", rng.Intn(3)))
			if rng.Intn(2) == 0 {
				wl.Ops = append(wl.Ops, gen.Op{Kind: "setu64", Key: k, U64: rng.Uint64()})
			} else {
				wl.Ops = append(wl.Ops, gen.Op{Kind: "set", Key: k, Val: []byte(fmt.Sprintf("val-%d-%d", id, len(wl.Ops)))})
			}
		}
	}
	return wl
}
