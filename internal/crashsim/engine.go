// Package crashsim is engine E1: production wal+segment code over simfs, one
// golden execution per workload with a snapshot at every mutating I/O boundary,
// crash images derived from each snapshot, recovery of every image judged
// against the set of legal model states, a fixed continuation after every
// recovery, and nesting (crashes inside recovery and inside the continuation).
package crashsim

import (
	"errors"
	"fmt"
	"math/rand"
	"os"
	"sort"
	"strings"
	"sync"
	"sync/atomic"

	"github.com/hashicorp/raft"
	wal "github.com/hashicorp/raft-wal"
	"github.com/hashicorp/raft-wal/segment"
	"github.com/hashicorp/raft-wal/types"

	"verif/internal/drv"
	"verif/internal/evid"
	"verif/internal/gen"
	"verif/internal/hooks"
	"verif/internal/model"
	"verif/internal/sched"
	"verif/internal/simfs"
)

// Workload is one generated operation sequence.
type Workload struct {
	ID      int      `json:"id"`
	Seed    int64    `json:"seed"`
	SegSize int      `json:"seg_size"`
	Ops     []gen.Op `json:"ops"`
	Profile string   `json:"profile"`
	Pending bool     `json:"pending_rotation_mode,omitempty"`
}

// Point is one crash point: a snapshot plus what the oracle knows there.
type Point struct {
	Call     simfs.Call
	Snap     *simfs.Snapshot
	Phase    string // open | op | rotate | close | cont
	OpIdx    int
	Base     *model.Log // model at the start of the in-flight op (nil during Open of a recovery)
	InFlight *gen.Op
	Batch    int
	Outer    []*model.Log // legal states while Base is nil
	Stable   *model.Stable
	// StableInFlight is the key being Set at this point, if any.
	StableInFlight *gen.Op
	HadTrunc       bool // a truncation was acknowledged earlier or is in flight
	Depth          int
}

// Legal returns the legal recovered states at this point.
func (p *Point) Legal() []*model.Log {
	if p.Base == nil {
		return p.Outer
	}
	return Expand(p.Base, p.InFlight, p.Batch)
}

// Expand enumerates the states recovery may legally produce when op was in
// flight on top of l.
func Expand(l *model.Log, op *gen.Op, batch int) []*model.Log {
	out := l.DropTrailingUnacked()
	if op == nil {
		return out
	}
	switch op.Kind {
	case "append":
		if len(op.Logs) > 0 && l.CheckAppend(op.Logs) == nil {
			l2 := l.Clone()
			l2.Append(op.Logs, batch, false)
			out = append([]*model.Log{l2}, out...)
		}
	case "delete":
		if k := l.ClassifyDelete(op.Min, op.Max); k != model.DelNoop && k != model.DelMiddle {
			l2 := l.Clone()
			l2.DeleteRange(op.Min, op.Max)
			out = append(out, l2.DropTrailingUnacked()...)
		}
	}
	return out
}

// runState is shared between the driver goroutine and the simfs hook (which may
// run on the rotation goroutine).
type runState struct {
	phase    atomic.Value // string
	opIdx    atomic.Int64
	base     atomic.Pointer[model.Log]
	after    atomic.Pointer[model.Log] // base with the in-flight append acknowledged
	inflight atomic.Pointer[gen.Op]
	batch    atomic.Int64
	outer    atomic.Pointer[[]*model.Log]
	stable   atomic.Pointer[model.Stable]
	rotating atomic.Pointer[wal.WAL] // the WAL whose rotation goroutine is doing I/O, if any
	cur      atomic.Pointer[wal.WAL] // the session's current WAL
	trigOp   atomic.Int64            // opIdx during which the last rotation was triggered
	hadTrunc atomic.Bool
}

// recorder is the simfs.Hook that takes snapshots.
type recorder struct {
	rs     *runState
	points []*Point
	depth  int
	// sel decides whether to snapshot a given boundary.
	sel func(c simfs.Call) bool
	mu  sync.Mutex
}

func (r *recorder) Pre(d *simfs.Disk, c simfs.Call) error { return nil }
func (r *recorder) Mid(d *simfs.Disk, c simfs.Call)       { r.take(d, c) }
func (r *recorder) Post(d *simfs.Disk, c simfs.Call) error {
	if c.Kind.Mutating() {
		r.take(d, c)
	}
	return nil
}

func (r *recorder) take(d *simfs.Disk, c simfs.Call) {
	if r.sel != nil && !r.sel(c) {
		return
	}
	rs := r.rs
	p := &Point{Call: c, Snap: d.SnapshotLocked(), OpIdx: int(rs.opIdx.Load()), Depth: r.depth,
		Stable: rs.stable.Load(), HadTrunc: rs.hadTrunc.Load(), Batch: int(rs.batch.Load())}
	p.Phase, _ = rs.phase.Load().(string)
	if o := rs.outer.Load(); o != nil && rs.base.Load() == nil {
		p.Outer = *o
	} else {
		p.Base = rs.base.Load()
		p.InFlight = rs.inflight.Load()
		if cur := rs.cur.Load(); cur != nil && rs.rotating.Load() == cur {
			// The rotation goroutine can only do I/O after StoreLogs released the
			// write lock on its way to returning nil: the append is acknowledged.
			p.Phase = "rotate"
			if rs.trigOp.Load() == rs.opIdx.Load() {
				if a := rs.after.Load(); a != nil {
					p.Base = a
				}
				p.InFlight = nil
			}
			// else (pending-rotation mode): the rotation belongs to an earlier, already
			// acknowledged call and runs while the current call waits for it; the current
			// call stays "in flight" (it has done no I/O of its own yet: a superset)
		}
		if p.InFlight != nil && (p.InFlight.Kind == "set" || p.InFlight.Kind == "setu64") {
			p.StableInFlight = p.InFlight
			p.InFlight = nil
		}
	}
	r.mu.Lock()
	r.points = append(r.points, p)
	r.mu.Unlock()
}

// Params tunes one engine run.
type Params struct {
	Prop          string // property whose predicate decides what is reported
	MaxDepth      int    // 1 = crash only the golden run; 2 = also crash recovery+continuation
	VariantBudget int    // per point at depth 1 (<=0 unlimited)
	NestedBudget  int    // variants per nested point
	NestedPoints  int    // how many nested points per recovery are explored (<=0: all)
	NestedEvery   int    // nest only every n-th depth-1 image (<=1: all)
	ExhaustiveMax int    // enumerate all subsets when pending pieces <= this
	PointStride   int    // explore every n-th non-critical point (1 = all)
	Workers       int
	// Only, when set, restricts exploration at depth d to the point and variant
	// named by Only[d-1] (replay mode).
	Only []OnlySel `json:",omitempty"`
	// RetryPrefix makes the continuation re-submit a prefix of a torn in-flight
	// batch (same sizes), as raft does after a crash, so that stale frames of the
	// torn batch sit right behind the new commit.
	RetryPrefix bool
}

// OnlySel names one crash (call string and variant name).
type OnlySel struct {
	Call    string
	Variant string
}

// Engine runs workloads.
type Engine struct {
	C *evid.Ctx
	P Params
}

var walListenerOnce sync.Once
var rotStates sync.Map // *wal.WAL -> *runState

func installRotationListener() {
	walListenerOnce.Do(func() {
		hooks.OnWAL(func(point string, arg any) {
			w, ok := arg.(*wal.WAL)
			if !ok {
				return
			}
			switch point {
			case "rotate.triggered":
				if rs, ok := rotStates.Load(w); ok {
					r := rs.(*runState)
					r.trigOp.Store(r.opIdx.Load())
				}
			case "rotate.received":
				if rs, ok := rotStates.Load(w); ok {
					rs.(*runState).rotating.Store(w)
				}
			case "rotate.done", "rotate.exit":
				if rs, ok := rotStates.Load(w); ok {
					rs.(*runState).rotating.CompareAndSwap(w, nil)
				}
			}
		})
	})
}

// session is one process lifetime of a WAL on a disk.
type session struct {
	e    *Engine
	disk *simfs.Disk
	w    *wal.WAL
	rs   *runState
	rec  *recorder
	seg  int
}

func (s *session) open() error {
	s.rs.phase.Store("open")
	w, err := drv.OpenSim(s.disk, drv.Cfg{SegSize: s.seg})
	if err != nil {
		return err
	}
	s.w = w
	rotStates.Store(w, s.rs)
	s.rs.cur.Store(w)
	return nil
}

func (s *session) close() {
	if s.w != nil {
		s.rs.phase.Store("close")
		s.rs.cur.Store(nil)
		drv.CloseWAL(s.w)
		rotStates.Delete(s.w)
		s.w = nil
	}
}

// failure describes why a case is a violation, and of which properties.
type failure struct {
	props []string
	class string
	desc  string
}

func (f *failure) has(p string) bool {
	for _, x := range f.props {
		if x == p {
			return true
		}
	}
	return false
}

// RunWorkload executes the golden run of wl and explores its crash points.
func (e *Engine) RunWorkload(wl *Workload) {
	installRotationListener()
	c := e.C
	rng := rand.New(rand.NewSource(wl.Seed ^ 0x5eed))
	disk := simfs.New(behaviour())
	rs := &runState{}
	rec := &recorder{rs: rs, depth: 1}
	disk.SetHook(rec)
	empty := []*model.Log{model.NewLog()}
	rs.outer.Store(&empty)
	st := model.NewStable()
	rs.stable.Store(st)
	s := &session{e: e, disk: disk, rs: rs, rec: rec, seg: wl.SegSize}

	replay := func(extra map[string]any) map[string]any {
		m := map[string]any{"workload": wl}
		for k, v := range extra {
			m[k] = v
		}
		return m
	}

	if err := s.open(); err != nil {
		e.report(&failure{props: []string{"C03", "C01"}, class: "golden-open-failed", desc: "Open of a fresh directory failed: " + err.Error()}, replay(nil))
		return
	}
	l := model.NewLog()
	batch := 0
	goldenOK := true
	// a third of the workloads run in pending-rotation mode: the background rotation is
	// held queued (write lock not taken) so that the next call, or Close, gets in first;
	// it runs when that call starts waiting for it, or when the driver releases it
	pend := wl.ID%3 == 1 && len(e.P.Only) == 0 || wl.Pending
	wl.Pending = pend
	var gate *sched.RotGate
	if pend {
		gate = sched.NewRotGate(s.w)
		c.Count("pending_rotation_workloads", 1)
	}
	defer func() {
		if gate != nil {
			gate.Close()
		}
	}()
	for i, op := range wl.Ops {
		op := op
		rs.opIdx.Store(int64(i))
		rs.phase.Store("op")
		if op.Kind == "reopen" {
			rs.base.Store(l)
			rs.inflight.Store(nil)
			if gate != nil && gate.Holding() {
				c.Count("closes_with_rotation_pending", 1)
			}
			s.close()
			if gate != nil {
				gate.Close()
				gate = nil
			}
			rs.base.Store(nil)
			cands := l.DropTrailingUnacked()
			rs.outer.Store(&cands)
			if err := s.open(); err != nil {
				e.report(&failure{props: []string{"C03", "C01", "C05"}, class: "golden-reopen-failed", desc: fmt.Sprintf("clean reopen failed at op %d: %v", i, err)}, replay(nil))
				goldenOK = false
				break
			}
			if pend {
				gate = sched.NewRotGate(s.w)
			}
			continue
		}
		batch++
		rs.batch.Store(int64(batch))
		rs.base.Store(l)
		rs.after.Store(nil)
		if op.Kind == "append" && l.CheckAppend(op.Logs) == nil {
			a := l.Clone()
			a.Append(op.Logs, batch, true)
			rs.after.Store(a)
		}
		if op.Kind == "delete" {
			if k := l.ClassifyDelete(op.Min, op.Max); k != model.DelNoop && k != model.DelMiddle {
				rs.hadTrunc.Store(true)
			}
		}
		rs.inflight.Store(&op)
		var res drv.Result
		if gate == nil {
			res = drv.Apply(s.w, op)
		} else {
			res = drv.ApplyNoWait(s.w, op)
			// the rotation this op may have queued reaches the gate asynchronously: wait for it, or
			// the golden run (and with it the whole exploration of this workload) depends on timing
			sw := s.w
			if !gate.Settle(func() (int64, int64, int64) { return hooks.Rotations(sw) }, drv.Watchdog) {
				res.Quiesced = false
			}
			if gate.Holding() && rng.Intn(2) == 0 {
				gate.Release()
				res.Quiesced = hooks.WaitRotation(s.w, drv.Watchdog)
			}
		}
		if !res.Quiesced {
			c.Inconclusive("workload %d op %d: rotation did not finish within the watchdog", wl.ID, i)
			goldenOK = false
			break
		}
		// update the model from the result
		nl := l
		switch op.Kind {
		case "append":
			want := l.CheckAppend(op.Logs)
			if res.Err == nil && want == nil {
				nl = l.Clone()
				nl.Append(op.Logs, batch, true)
			} else if (res.Err == nil) != (want == nil) {
				e.report(&failure{props: []string{"C05"}, class: "golden-append-verdict", desc: fmt.Sprintf("op %d %s: got err=%v, model says %v", i, op, res.Err, want)}, replay(nil))
				goldenOK = false
			}
		case "delete":
			k := l.ClassifyDelete(op.Min, op.Max)
			if res.Err == nil && k != model.DelMiddle {
				nl = l.Clone()
				nl.DeleteRange(op.Min, op.Max)
			} else if (res.Err == nil) != (k != model.DelMiddle) {
				e.report(&failure{props: []string{"C05"}, class: "golden-delete-verdict", desc: fmt.Sprintf("op %d %s: got err=%v, model class %v", i, op, res.Err, k)}, replay(nil))
				goldenOK = false
			}
		case "set", "setu64":
			if res.Err == nil {
				st = st.Clone()
				if op.Kind == "set" {
					st.Set(op.Key, op.Val)
				} else {
					st.Set(op.Key, u64le(op.U64))
				}
				rs.stable.Store(st)
			}
		}
		if !goldenOK {
			break
		}
		l = nl
		rs.base.Store(l)
		rs.inflight.Store(nil)
		rs.after.Store(nil)
		// cheap in-process sanity: first/last (full differential checking is C05's job)
		gprops := []string{"C05"}
		if rs.hadTrunc.Load() {
			gprops = append(gprops, "C04") // an acknowledged DeleteRange did not stay applied
		}
		if f, _ := s.w.FirstIndex(); f != l.First {
			e.report(&failure{props: gprops, class: "golden-first", desc: fmt.Sprintf("after op %d %s (pending-rotation mode %v) FirstIndex=%d want %d", i, op, pend, f, l.First)}, replay(nil))
			goldenOK = false
		}
		if la, _ := s.w.LastIndex(); la != l.Last {
			e.report(&failure{props: gprops, class: "golden-last", desc: fmt.Sprintf("after op %d %s (pending-rotation mode %v) LastIndex=%d want %d", i, op, pend, la, l.Last)}, replay(nil))
			goldenOK = false
		}
		if !goldenOK {
			break
		}
		// C13 at quiescence
		if f := checkListing(disk); f != nil {
			f.desc = fmt.Sprintf("after op %d %s: %s", i, op, f.desc)
			e.report(f, replay(nil))
		}
		// ... and no segment that lies wholly inside what has been deleted is kept (it would
		// be in the metadata and in the directory alike, so the comparison above cannot see it)
		for _, sg := range disk.MetaSnapshot().State.Segments {
			if sg.SealTime.IsZero() {
				continue // the tail
			}
			lo := sg.BaseIndex
			if sg.MinIndex > lo {
				lo = sg.MinIndex
			}
			if l.Empty() || sg.MaxIndex < l.First || lo > l.Last {
				e.report(&failure{props: []string{"C13"}, class: "dead-segment-kept", desc: fmt.Sprintf("after op %d %s: sealed segment %s covering [%d,%d] is still in the metadata and on disk although the log is [%d,%d]", i, op, segment.FileName(sg), lo, sg.MaxIndex, l.First, l.Last)}, replay(nil))
			}
		}
	}
	rs.base.Store(l)
	rs.inflight.Store(nil)
	if gate != nil {
		gate.Close() // also lets a rotation through that has not reached the gate yet
		gate = nil
		hooks.WaitRotation(s.w, drv.Watchdog)
	}
	s.close()
	disk.SetHook(nil)
	for _, v := range disk.IDViolations {
		e.report(&failure{props: []string{"C13"}, class: "id-rule:" + idClass(v), desc: v}, replay(nil))
	}
	if f, m := disk.OpenHandles(); f != 0 || m != 0 {
		e.report(&failure{props: []string{"C14", "C13"}, class: "handles-after-close", desc: fmt.Sprintf("%d file handles and %d meta stores still open after Close", f, m)}, replay(nil))
	}
	c.Count("workloads", 1)
	c.Count("golden_boundaries", int64(len(rec.points)))
	if !goldenOK {
		return
	}
	e.explore(wl, rec.points, rng, 1, replay)
}

// explore derives images from the points and checks their recovery.
func (e *Engine) explore(wl *Workload, points []*Point, rng *rand.Rand, depth int, replay func(map[string]any) map[string]any) {
	c := e.C
	for pi, pt := range points {
		if len(e.P.Only) >= depth && e.P.Only[depth-1].Call != pt.Call.String() {
			continue
		}
		if len(e.P.Only) > 0 && len(e.P.Only) < depth {
			continue
		}
		critical := pt.Call.Kind == simfs.KSync || pt.Call.Kind == simfs.KMetaCommit || pt.Call.Kind == simfs.KCreate || pt.Call.Kind == simfs.KDelete
		if depth == 1 && e.P.PointStride > 1 && !critical && pi%e.P.PointStride != 0 && len(e.P.Only) == 0 {
			continue
		}
		pend := pt.Snap.PendingInfo()
		budget := e.P.VariantBudget
		if depth > 1 {
			budget = e.P.NestedBudget
		}
		if len(e.P.Only) >= depth {
			budget = 0
		}
		vs := simfs.StandardVariants(len(pend.Pieces), pend.DirOps, rng, budget, e.P.ExhaustiveMax, wl.Seed*31+int64(pt.Call.Seq)*7919+int64(depth))
		c.Count("points", 1)
		c.Distinct("point_kinds", fmt.Sprintf("%s/%s/stage%d", pt.Phase, pt.Call.Kind, min(pt.Call.Stage, 2)))
		for _, v := range vs {
			if len(e.P.Only) >= depth && e.P.Only[depth-1].Variant != v.Name {
				continue
			}
			img := pt.Snap.Image(v)
			e.checkRecovery(wl, pt, v, img, rng, depth, func(extra map[string]any) map[string]any {
				m := replay(extra)
				key := fmt.Sprintf("crash%d", depth)
				m[key] = map[string]any{"call": pt.Call.String(), "phase": pt.Phase, "op_index": pt.OpIdx, "variant": v.Name,
					"in_flight": opString(pt.InFlight), "pending_pieces": len(pend.Pieces), "pending_dirops": pend.DirOps}
				return m
			})
		}
	}
}

func opString(o *gen.Op) string {
	if o == nil {
		return "none"
	}
	return o.String()
}

func variantClass(name string) string {
	parts := strings.Split(name, "/")
	for i, p := range parts {
		if j := strings.IndexByte(p, ':'); j >= 0 {
			parts[i] = p[:j]
		}
	}
	return strings.Join(parts, "/")
}

// checkRecovery opens the image, judges the recovered state, runs the
// continuation and recurses.
func (e *Engine) checkRecovery(wl *Workload, pt *Point, v simfs.Variant, img *simfs.Disk, rng *rand.Rand, depth int, replay func(map[string]any) map[string]any) {
	c := e.C
	c.Count("images", 1)
	c.Count(fmt.Sprintf("images_depth%d", depth), 1)
	c.Count("images_variant_"+variantClass(v.Name), 1)
	pend := pt.Snap.PendingInfo()
	nontrivial := len(pend.Pieces) > 0 || pend.DirOps > 0 || pt.InFlight != nil || pt.Base == nil
	imgHash := img.Hash()
	if nontrivial {
		c.Distinct("nontrivial_images", imgHash)
	}
	if pt.HadTrunc || (pt.InFlight != nil && pt.InFlight.Kind == "delete") {
		c.Distinct("trunc_images", imgHash)
	}
	legal := pt.Legal()

	rs := &runState{}
	var rec *recorder
	if depth < e.P.MaxDepth {
		rec = &recorder{rs: rs, depth: depth + 1}
		img.SetHook(rec)
	}
	rs.outer.Store(&legal)
	rs.stable.Store(pt.Stable)
	rs.hadTrunc.Store(pt.HadTrunc)
	s := &session{e: e, disk: img, rs: rs, rec: rec, seg: wl.SegSize}

	preFiles := img.List()
	metaBefore := img.MetaSnapshot()
	orphans := countOrphans(preFiles, metaBefore)
	if orphans > 0 {
		c.Count("images_with_orphan_files_before_open", 1)
		c.Distinct("c13_nontrivial", imgHash)
	}
	if missingTail(preFiles, metaBefore) {
		c.Count("images_with_missing_tail_file", 1)
		c.Distinct("c03_nontrivial", imgHash)
	}
	if pt.Phase == "rotate" || pt.Phase == "open" || (pt.InFlight != nil && pt.InFlight.Kind == "delete") {
		c.Distinct("c03_nontrivial", imgHash)
	}

	// C02's non-triviality: before recovery, the tail holds non-zero bytes beyond
	// the point where a plain frame scan stops, or a torn subset of the in-flight batch
	if tn := tailName(metaBefore); tn != "" {
		if off := recoveredEnd(img, tn); off >= 0 && img.StaleBytesAfter(tn, off) {
			c.Count("images_with_bytes_beyond_frame_scan_before_open", 1)
			c.Distinct("c02_nontrivial", imgHash)
		}
	}
	if pt.InFlight != nil && pt.InFlight.Kind == "append" && len(pend.Pieces) > 0 && !v.Kill &&
		!strings.Contains(v.Name, "/none/") && !strings.Contains(v.Name, "/all/") {
		c.Count("images_with_torn_inflight_batch", 1)
		c.Distinct("c02_nontrivial", imgHash)
	}

	if err := s.open(); err != nil {
		props := []string{"C03", "C01"}
		if errors.Is(err, os.ErrExist) {
			props = append(props, "C13") // creating a segment collided with an existing file
		}
		e.report(&failure{props: props, class: "open-failed:" + errClass(err),
			desc: fmt.Sprintf("Open failed on a crash image (%s, variant %s, in-flight %s): %v", pt.Call, v.Name, opString(pt.InFlight), err)}, replay(nil))
		return
	}
	defer func() {
		s.close()
		img.SetHook(nil)
	}()

	// judge the recovered state
	probes := model.ProbeSet(nil, legal...)
	obs := drv.Observe(s.w, probes)
	var match *model.Log
	for _, cand := range legal {
		if cand.Diff(obs) == "" {
			match = cand
			break
		}
	}
	if match == nil {
		f := classifyMismatch(pt, legal, obs)
		f.desc = fmt.Sprintf("after crash at %s (%s, variant %s, in-flight %s): %s", pt.Call, pt.Phase, v.Name, opString(pt.InFlight), f.desc)
		e.report(f, replay(map[string]any{"observed_first": obs.First, "observed_last": obs.Last, "meta_before_open": metaBrief(metaBefore), "meta_after_open": metaBrief(img.MetaSnapshot()), "files_before_open": preFiles}))
		// C03 is about usability whatever was recovered: the WAL must take an append at its
		// own LastIndex+1, a stable write, and come back from a clean reopen with it
		if f := e.usabilityProbe(s, obs); f != nil {
			f.desc = fmt.Sprintf("after crash at %s (%s, variant %s, in-flight %s), recovered state [%d,%d]: %s", pt.Call, pt.Phase, v.Name, opString(pt.InFlight), obs.First, obs.Last, f.desc)
			e.report(f, replay(nil))
		}
		return
	}
	if len(legal) > 1 {
		c.Count("recoveries_with_choice", 1)
	}
	// stable store: acknowledged sets must be there; the in-flight one may be old or new
	if f := checkStable(s.w, pt); f != nil {
		e.report(f, replay(nil))
	}
	// C13: directory holds exactly the live segments
	if f := checkListing(img); f != nil {
		f.desc = fmt.Sprintf("after Open on crash image (%s, variant %s): %s", pt.Call, v.Name, f.desc)
		e.report(f, replay(nil))
	}
	if orphans > 0 {
		c.Count("orphans_swept_checks", 1)
	}
	// continuation (C03): the recovered WAL must be fully usable
	l := match.Clone()
	rs.base.Store(l)
	f, side := e.continuation(wl, s, l, pt, rng, depth)
	if side != nil {
		side.desc = fmt.Sprintf("continuation after crash at %s (%s, variant %s, in-flight %s): %s", pt.Call, pt.Phase, v.Name, opString(pt.InFlight), side.desc)
		e.report(side, replay(nil))
	}
	if f != nil {
		f.desc = fmt.Sprintf("continuation after crash at %s (%s, variant %s, in-flight %s): %s", pt.Call, pt.Phase, v.Name, opString(pt.InFlight), f.desc)
		e.report(f, replay(nil))
		return
	}
	c.Count("continuations_ok", 1)
	for _, vv := range img.IDViolations {
		e.report(&failure{props: []string{"C13"}, class: "id-rule:" + idClass(vv), desc: vv}, replay(nil))
	}

	// nesting
	if rec != nil && e.P.NestedEvery > 1 && len(e.P.Only) == 0 && rng.Intn(e.P.NestedEvery) != 0 {
		rec = nil
	}
	if rec != nil {
		s.close()
		img.SetHook(nil)
		pts := rec.points
		if e.P.NestedPoints > 0 && len(pts) > e.P.NestedPoints && len(e.P.Only) == 0 {
			// keep all Open-phase points first (they are the "crash inside recovery" ones), sample the rest
			var openPts, rest []*Point
			for _, p := range pts {
				if p.Phase == "open" || p.Phase == "cont-retry" {
					openPts = append(openPts, p)
				} else {
					rest = append(rest, p)
				}
			}
			rng.Shuffle(len(rest), func(i, j int) { rest[i], rest[j] = rest[j], rest[i] })
			rng.Shuffle(len(openPts), func(i, j int) { openPts[i], openPts[j] = openPts[j], openPts[i] })
			pts = openPts
			if len(pts) > e.P.NestedPoints {
				pts = pts[:e.P.NestedPoints]
			}
			for _, p := range rest {
				if len(pts) >= e.P.NestedPoints {
					break
				}
				pts = append(pts, p)
			}
		}
		e.explore(wl, pts, rng, depth+1, replay)
	}
}

// usabilityProbe: model-free part of C03, used when the recovered state is not a legal one.
func (e *Engine) usabilityProbe(s *session, obs *model.Obs) *failure {
	rs := s.rs
	rs.phase.Store("cont")
	rs.base.Store(nil)
	rs.inflight.Store(nil)
	next := obs.Last + 1
	lg := gen.Entry(rand.New(rand.NewSource(int64(next))), next, "probe", 24)
	if res := drv.Apply(s.w, gen.Op{Kind: "append", Logs: []*raft.Log{lg}}); res.Err != nil {
		return &failure{props: []string{"C03"}, class: "unusable-after-recovery:append:" + errClass(res.Err), desc: fmt.Sprintf("append at LastIndex+1=%d refused: %v", next, res.Err)}
	}
	if err := s.w.Set([]byte("probe"), []byte("x")); err != nil {
		return &failure{props: []string{"C03"}, class: "unusable-after-recovery:set", desc: "stable Set failed: " + err.Error()}
	}
	s.close()
	if err := s.open(); err != nil {
		return &failure{props: []string{"C03"}, class: "unusable-after-recovery:reopen:" + errClass(err), desc: "clean reopen after one append failed: " + err.Error()}
	}
	var got raft.Log
	if err := s.w.GetLog(next, &got); err != nil || model.LogDiff(&got, lg) != "" {
		return &failure{props: []string{"C03"}, class: "unusable-after-recovery:readback", desc: fmt.Sprintf("entry %d appended after recovery does not read back after a clean reopen: %v", next, err)}
	}
	e.C.Count("usability_probes_after_mismatch", 1)
	return nil
}

// continuation drives the recovered WAL through appends (forcing a rotation in
// small geometries), reads, truncations, a stable write and a clean reopen.
func (e *Engine) continuation(wl *Workload, s *session, l *model.Log, pt *Point, rng *rand.Rand, depth int) (main *failure, side *failure) {
	defer func() {
		if main == nil && side != nil {
			main, side = side, nil
		}
	}()
	rs := s.rs
	rs.phase.Store("cont")
	batch := 100000 * depth
	step := func(op gen.Op) *failure {
		batch++
		rs.batch.Store(int64(batch))
		rs.base.Store(l)
		rs.after.Store(nil)
		if op.Kind == "append" {
			a := l.Clone()
			a.Append(op.Logs, batch, true)
			rs.after.Store(a)
		}
		if op.Kind == "delete" {
			rs.hadTrunc.Store(true)
		}
		rs.inflight.Store(&op)
		res := drv.Apply(s.w, op)
		if !res.Quiesced {
			e.C.Inconclusive("continuation: rotation did not finish within the watchdog")
			return nil
		}
		if res.Err != nil {
			props := []string{"C03"}
			if errors.Is(res.Err, os.ErrExist) {
				props = append(props, "C13")
			}
			return &failure{props: props, class: "cont-" + op.Kind + ":" + errClass(res.Err), desc: fmt.Sprintf("%s failed: %v", op, res.Err)}
		}
		nl := l.Clone()
		switch op.Kind {
		case "append":
			nl.Append(op.Logs, batch, true)
		case "delete":
			nl.DeleteRange(op.Min, op.Max)
		case "set":
			st := rs.stable.Load().Clone()
			st.Set(op.Key, op.Val)
			rs.stable.Store(st)
		}
		l = nl
		rs.base.Store(l)
		rs.inflight.Store(nil)
		rs.after.Store(nil)
		return nil
	}
	compare := func(when string) *failure {
		obs := drv.Observe(s.w, model.ProbeSet(nil, l))
		if d := l.Diff(obs); d != "" {
			return &failure{props: []string{"C03", "C01", "C02"}, class: "cont-mismatch-" + when, desc: fmt.Sprintf("state differs from model %s: %s", when, d)}
		}
		return nil
	}
	tag := fmt.Sprintf("c%d.%d.%d", wl.ID, depth, pt.Call.Seq)
	next := l.Last + 1
	if l.Empty() {
		next = []uint64{1, 7, l.Last + 1, 1 << 33}[rng.Intn(4)]
		if next == 0 {
			next = 1
		}
	}
	// what recovery rebuilt (and possibly committed: a completed rotation, a re-created tail)
	// must read back the same after a clean reopen, before anything else touches it
	if rng.Intn(2) == 0 {
		rs.base.Store(l)
		rs.inflight.Store(nil)
		s.close()
		rs.base.Store(nil)
		cands := []*model.Log{l}
		rs.outer.Store(&cands)
		if err := s.open(); err != nil {
			return &failure{props: []string{"C03", "C01", "C02", "C04"}, class: "cont-reopen-right-after-recovery:" + errClass(err), desc: "clean reopen right after recovery failed: " + err.Error()}, side
		}
		rs.base.Store(l)
		rs.phase.Store("cont")
		if f := compare("after a clean reopen right after recovery"); f != nil {
			if rs.hadTrunc.Load() {
				f.props = append(f.props, "C04")
			}
			return f, side
		}
		e.C.Count("clean_reopens_right_after_recovery", 1)
	}
	// C02 chains: re-submit a prefix of the torn in-flight batch, as raft does after
	// a restart, so the rest of its stale frames sit right behind the new commit.
	if e.P.RetryPrefix && pt.InFlight != nil && pt.InFlight.Kind == "append" && len(pt.InFlight.Logs) > 0 &&
		((l.Empty() && true) || pt.InFlight.Logs[0].Index == l.Last+1) && rng.Intn(4) != 0 {
		n := len(pt.InFlight.Logs)
		k := 1 + rng.Intn(n)
		identical := rng.Intn(2) == 0
		var logs []*raft.Log
		for _, lg := range pt.InFlight.Logs[:k] {
			c := model.CopyLog(lg)
			if !identical {
				c.Term += 100 // same encoded size for small terms, different identity
			}
			logs = append(logs, c)
		}
		// raft re-sends the same entries but may batch them differently: add new ones
		for x := rng.Intn(3); x > 0; x-- {
			idx := logs[len(logs)-1].Index + 1
			logs = append(logs, gen.Entry(rng, idx, tag+"n", 8+rng.Intn(40)))
		}
		rs.phase.Store("cont-retry")
		f := step(gen.Op{Kind: "append", Logs: logs})
		rs.phase.Store("cont")
		if f != nil {
			return f, side
		}
		e.C.Count("retry_prefix_continuations", 1)
		next = l.Last + 1
		if f := compare("after retry of torn batch"); f != nil {
			return f, side
		}
		// a clean reopen right here re-scans the tail with the stale frames behind it
		rs.base.Store(l)
		rs.inflight.Store(nil)
		s.close()
		rs.base.Store(nil)
		cands := l.DropTrailingUnacked()
		rs.outer.Store(&cands)
		if err := s.open(); err != nil {
			return &failure{props: []string{"C03", "C01", "C02"}, class: "cont-reopen-after-retry:" + errClass(err), desc: "clean reopen after retrying a torn batch failed: " + err.Error()}, side
		}
		rs.base.Store(l)
		rs.phase.Store("cont")
		if f := compare("after reopen following retry of torn batch"); f != nil {
			return f, side
		}
	}
	// the FIRST write after a recovery need not be an append: raft removes a conflicting suffix
	// before it appends, a snapshot compacts the head, a vote is persisted. In a third of the
	// continuations one of those comes first (a recovered tail that is sealed but not yet rotated,
	// or re-created, meets a truncation or a stable write before any append could tidy it up).
	switch k := rng.Intn(12); {
	case k == 0 && !l.Empty() && l.Last > l.First:
		if f := step(gen.Op{Kind: "delete", Min: l.Last, Max: l.Last}); f != nil {
			return f, side
		}
		e.C.Count("first_write_after_recovery:tail-truncation", 1)
	case k == 1 && !l.Empty() && l.Last-l.First >= 2:
		if f := step(gen.Op{Kind: "delete", Min: l.Last - 1, Max: l.Last + 3}); f != nil {
			return f, side
		}
		e.C.Count("first_write_after_recovery:tail-truncation", 1)
	case k == 2 && !l.Empty() && l.Last > l.First:
		if f := step(gen.Op{Kind: "delete", Min: l.First, Max: l.First}); f != nil {
			return f, side
		}
		e.C.Count("first_write_after_recovery:head-truncation", 1)
	case k == 3 && pt.InFlight != nil && pt.InFlight.Kind == "delete":
		// the interrupted truncation itself, retried
		if kind := l.ClassifyDelete(pt.InFlight.Min, pt.InFlight.Max); kind == model.DelHead || kind == model.DelTail {
			if f := step(gen.Op{Kind: "delete", Min: pt.InFlight.Min, Max: pt.InFlight.Max}); f != nil {
				return f, side
			}
			e.C.Count("first_write_after_recovery:retried-truncation", 1)
		}
	case k == 4:
		if f := step(gen.Op{Kind: "set", Key: []byte("first" + tag), Val: []byte("v")}); f != nil {
			return f, side
		}
		e.C.Count("first_write_after_recovery:stable-set", 1)
	}
	if !l.Empty() {
		next = l.Last + 1
		if f := compare("after the first write following recovery"); f != nil {
			if rs.hadTrunc.Load() {
				f.props = append(f.props, "C04")
			}
			return f, side
		}
	}
	// enough appended bytes to fill the segment at least once for small geometries
	nb := 2 + rng.Intn(2)
	for b := 0; b < nb; b++ {
		n := 1 + rng.Intn(3)
		var logs []*raft.Log
		for i := 0; i < n; i++ {
			sz := 8 + rng.Intn(48)
			if b == 0 && i == 0 && wl.SegSize <= 512 {
				sz = wl.SegSize/2 + rng.Intn(32)
			}
			logs = append(logs, gen.Entry(rng, next, tag, sz))
			next++
		}
		if f := step(gen.Op{Kind: "append", Logs: logs}); f != nil {
			return f, side
		}
	}
	if f := compare("after appends"); f != nil {
		return f, side
	}
	if l.Last-l.First >= 3 {
		if f := step(gen.Op{Kind: "delete", Min: l.First, Max: l.First}); f != nil {
			return f, side
		}
		if f := step(gen.Op{Kind: "delete", Min: l.Last, Max: l.Last}); f != nil {
			return f, side
		}
		if f := compare("after truncations"); f != nil {
			return f, side
		}
		lg := gen.Entry(rng, l.Last+1, tag+"r", 10+rng.Intn(20))
		if f := step(gen.Op{Kind: "append", Logs: []*raft.Log{lg}}); f != nil {
			return f, side
		}
	}
	if f := step(gen.Op{Kind: "set", Key: []byte("k" + tag), Val: []byte("v" + tag)}); f != nil {
		return f, side
	}
	if v, err := s.w.Get([]byte("k" + tag)); err != nil || string(v) != "v"+tag {
		return &failure{props: []string{"C03", "C08"}, class: "cont-stable-get", desc: fmt.Sprintf("Get after Set returned %q, %v", v, err)}, side
	}
	if f := checkListing(s.disk); f != nil {
		// the listing is C13's statement. Do not stop here: what a missing or extra file
		// means for C01/C03 (entries lost at the next Open, an Open that fails) only shows
		// after the clean reopen below, and must be judged there by its own rule.
		side = f
	}
	// clean reopen
	rs.base.Store(l)
	rs.inflight.Store(nil)
	s.close()
	rs.base.Store(nil)
	cands := l.DropTrailingUnacked()
	rs.outer.Store(&cands)
	if err := s.open(); err != nil {
		return &failure{props: []string{"C03", "C01"}, class: "cont-reopen:" + errClass(err), desc: "clean reopen failed: " + err.Error()}, side
	}
	rs.base.Store(l)
	rs.phase.Store("cont")
	if f := compare("after clean reopen"); f != nil {
		return f, side
	}
	if v, err := s.w.Get([]byte("k" + tag)); err != nil || string(v) != "v"+tag {
		return &failure{props: []string{"C03", "C08"}, class: "cont-stable-reopen", desc: fmt.Sprintf("Get after reopen returned %q, %v", v, err)}, side
	}
	lg := gen.Entry(rng, l.Last+1, tag+"z", 12)
	if l.Empty() {
		lg = gen.Entry(rng, 5, tag+"z", 12)
	}
	if f := step(gen.Op{Kind: "append", Logs: []*raft.Log{lg}}); f != nil {
		return f, side
	}
	return compare("at end"), side
}

func classifyMismatch(pt *Point, legal []*model.Log, obs *model.Obs) *failure {
	props := []string{"C02"}
	var why []string
	// C01: every acknowledged entry not covered by an issued DeleteRange must be intact and bracketed
	base := pt.Base
	if base == nil && len(legal) > 0 {
		base = legal[len(legal)-1] // the most reduced candidate holds only acknowledged entries
	}
	c01 := false
	if base != nil {
		for idx, ent := range base.Ents {
			if !ent.Acked {
				continue
			}
			if pt.InFlight != nil && pt.InFlight.Kind == "delete" && idx >= pt.InFlight.Min && idx <= pt.InFlight.Max {
				continue
			}
			got, ok := obs.Got[idx]
			if !ok || got == nil || model.LogDiff(got, ent.Log) != "" || obs.First > idx || obs.Last < idx {
				c01 = true
				why = append(why, fmt.Sprintf("acknowledged entry %d lost or altered", idx))
				break
			}
		}
	}
	if c01 {
		props = append(props, "C01")
	}
	if pt.HadTrunc || (pt.InFlight != nil && pt.InFlight.Kind == "delete") {
		props = append(props, "C04")
	}
	best := ""
	for _, cand := range legal {
		d := cand.Diff(obs)
		if best == "" || len(d) < len(best) {
			best = d
		}
	}
	class := "state-mismatch"
	switch {
	case c01:
		class = "acked-entry-lost"
	case len(obs.Errs) > 0:
		class = "unreadable-index"
	case pt.InFlight != nil && pt.InFlight.Kind == "delete":
		class = "truncation-not-atomic"
	case pt.InFlight != nil && pt.InFlight.Kind == "append":
		class = "batch-not-atomic-or-fabricated"
	}
	return &failure{props: props, class: class, desc: fmt.Sprintf("recovered state matches none of %d legal states; %v; closest: %s", len(legal), why, best)}
}

func checkStable(w *wal.WAL, pt *Point) *failure {
	if pt.Stable == nil {
		return nil
	}
	for k, v := range pt.Stable.M {
		got, err := w.Get([]byte(k))
		if err != nil {
			return &failure{props: []string{"C08"}, class: "stable-get-error", desc: fmt.Sprintf("Get(%q) after recovery: %v", k, err)}
		}
		if string(got) != string(v) {
			if pt.StableInFlight != nil && string(pt.StableInFlight.Key) == k {
				nv := pt.StableInFlight.Val
				if pt.StableInFlight.Kind == "setu64" {
					nv = u64le(pt.StableInFlight.U64)
				}
				if string(got) == string(nv) {
					continue
				}
			}
			return &failure{props: []string{"C08"}, class: "stable-lost", desc: fmt.Sprintf("Get(%q) after recovery = %q, acknowledged value %q", k, got, v)}
		}
	}
	return nil
}

func u64le(v uint64) []byte {
	b := make([]byte, 8)
	for i := 0; i < 8; i++ {
		b[i] = byte(v >> (8 * i))
	}
	return b
}

// checkListing is the C13 quiescent invariant: the directory holds exactly the
// files of the segments in the committed metadata.
func checkListing(d *simfs.Disk) *failure {
	meta := d.MetaSnapshot()
	want := map[string]bool{}
	for _, s := range meta.State.Segments {
		want[segment.FileName(s)] = true
	}
	got := d.List()
	var extra, missing []string
	for _, n := range got {
		if !want[n] {
			extra = append(extra, n)
		}
		delete(want, n)
	}
	for n := range want {
		missing = append(missing, n)
	}
	sort.Strings(missing)
	if len(extra) > 0 || len(missing) > 0 {
		return &failure{props: []string{"C13"}, class: fmt.Sprintf("listing:extra=%d,missing=%d", min(len(extra), 1), min(len(missing), 1)),
			desc: fmt.Sprintf("directory differs from committed metadata: extra files %v, missing files %v", extra, missing)}
	}
	return nil
}

func countOrphans(files []string, meta *simfs.MetaState) int {
	want := map[string]bool{}
	for _, s := range meta.State.Segments {
		want[segment.FileName(s)] = true
	}
	n := 0
	for _, f := range files {
		if !want[f] {
			n++
		}
	}
	return n
}

func missingTail(files []string, meta *simfs.MetaState) bool {
	tn := tailName(meta)
	if tn == "" {
		return false
	}
	for _, f := range files {
		if f == tn {
			return false
		}
	}
	return true
}

func tailName(meta *simfs.MetaState) string {
	n := len(meta.State.Segments)
	if n == 0 {
		return ""
	}
	t := meta.State.Segments[n-1]
	if !t.SealTime.IsZero() {
		return ""
	}
	return segment.FileName(t)
}

// recoveredEnd scans the tail file the way a reader would and returns the offset
// just past the last commit frame (or -1).
func recoveredEnd(d *simfs.Disk, name string) int {
	b := d.FileBytes(name)
	if len(b) < 32 {
		return -1
	}
	off := 32
	end := 32
	for off+8 <= len(b) {
		typ := b[off]
		ln := int(uint32(b[off+4]) | uint32(b[off+5])<<8 | uint32(b[off+6])<<16 | uint32(b[off+7])<<24)
		switch typ {
		case 1, 2:
			off += 8 + ((ln + 7) &^ 7)
		case 3:
			off += 8
			end = off
		default:
			return end
		}
	}
	return end
}

func errClass(err error) string {
	switch {
	case errors.Is(err, types.ErrSealed):
		return "sealed"
	case errors.Is(err, types.ErrCorrupt):
		return "corrupt"
	case errors.Is(err, os.ErrExist):
		return "exists"
	case errors.Is(err, os.ErrNotExist):
		return "notexist"
	case errors.Is(err, types.ErrClosed):
		return "closed"
	}
	s := err.Error()
	// strip numbers so that the class names the error shape, not the instance
	var b strings.Builder
	for _, r := range s {
		if r >= '0' && r <= '9' {
			continue
		}
		b.WriteRune(r)
	}
	s = b.String()
	if len(s) > 48 {
		s = s[:48]
	}
	return s
}

// report records a failure if it concerns the property this engine run decides.
func (e *Engine) report(f *failure, replay map[string]any) {
	c := e.C
	if !f.has(e.P.Prop) {
		c.Count("signals_for_other_properties", 1)
		c.Distinct("other_property_signals", strings.Join(f.props, "+")+":"+f.class)
		return
	}
	c.Violation(e.P.Prop+":"+f.class, f.desc, replay)
}

var behOnce sync.Once
var beh simfs.Behaviour

func behaviour() simfs.Behaviour {
	behOnce.Do(func() { beh = simfs.Calibrate() })
	return beh
}

// BehaviourUsed returns the calibrated behaviour table.
func BehaviourUsed() simfs.Behaviour { return behaviour() }

func metaBrief(m *simfs.MetaState) []string {
	out := []string{fmt.Sprintf("next=%d", m.State.NextSegmentID)}
	for _, s := range m.State.Segments {
		out = append(out, fmt.Sprintf("id=%d base=%d min=%d max=%d sealed=%v indexStart=%d", s.ID, s.BaseIndex, s.MinIndex, s.MaxIndex, !s.SealTime.IsZero(), s.IndexStart))
	}
	return out
}

func idClass(v string) string {
	if i := strings.IndexByte(v, ':'); i > 0 && i < 30 {
		return v[:i]
	}
	f := strings.Fields(v)
	if len(f) > 3 {
		f = f[:3]
	}
	return strings.Join(f, "-")
}
