// Package hooks installs dispatchers into the verif-tagged hook variables of the
// raft-wal packages and tracks background rotations per WAL.
package hooks

import (
	"runtime"
	"sync"
	"sync/atomic"
	"time"

	wal "github.com/hashicorp/raft-wal"
	"github.com/hashicorp/raft-wal/fs"
	"github.com/hashicorp/raft-wal/metadb"
	"github.com/hashicorp/raft-wal/segment"
)

type Listener func(point string, arg any)

type slot struct {
	mu  sync.Mutex
	ls  map[int]Listener
	n   int
	cur atomic.Pointer[[]Listener] // copy-on-write snapshot read without locking
}

func (s *slot) rebuild() {
	ls := make([]Listener, 0, len(s.ls))
	for _, l := range s.ls {
		ls = append(ls, l)
	}
	s.cur.Store(&ls)
}

func (s *slot) add(l Listener) func() {
	s.mu.Lock()
	if s.ls == nil {
		s.ls = map[int]Listener{}
	}
	s.n++
	id := s.n
	s.ls[id] = l
	s.rebuild()
	s.mu.Unlock()
	return func() { s.mu.Lock(); delete(s.ls, id); s.rebuild(); s.mu.Unlock() }
}

func (s *slot) dispatch(point string, arg any) {
	p := s.cur.Load()
	if p == nil {
		return
	}
	for _, l := range *p {
		l(point, arg)
	}
}

var walSlot, segSlot, fsSlot, metaSlot slot

type rot struct {
	triggered, finished, exited atomic.Int64
}

var rots sync.Map // *wal.WAL -> *rot

func rotOf(w *wal.WAL) *rot {
	if r, ok := rots.Load(w); ok {
		return r.(*rot)
	}
	r, _ := rots.LoadOrStore(w, &rot{})
	return r.(*rot)
}

func init() {
	wal.VerifHook.Store(func(point string, arg any) {
		if point == "rotate.triggered" {
			rotOf(arg.(*wal.WAL)).triggered.Add(1)
		}
		walSlot.dispatch(point, arg)
		// count completion only after the listeners ran, so that whoever waits for
		// the rotation also sees their effects
		switch point {
		case "rotate.done":
			if r, ok := rots.Load(arg.(*wal.WAL)); ok {
				r.(*rot).finished.Add(1)
			}
		case "rotate.exit":
			// may arrive after Forget (the rotation goroutine outlives Close): must not
			// re-create the entry, which would keep the whole WAL reachable for ever
			if r, ok := rots.Load(arg.(*wal.WAL)); ok {
				r.(*rot).exited.Add(1)
			}
		}
	})
	segment.VerifHook.Store(func(point string, arg any) { segSlot.dispatch(point, arg) })
	fs.VerifHook.Store(func(point string, arg any) { fsSlot.dispatch(point, arg) })
	metadb.VerifHook.Store(func(point string, arg any) { metaSlot.dispatch(point, arg) })
}

func OnWAL(l Listener) func()     { return walSlot.add(l) }
func OnSegment(l Listener) func() { return segSlot.add(l) }
func OnFS(l Listener) func()      { return fsSlot.add(l) }
func OnMeta(l Listener) func()    { return metaSlot.add(l) }

// WaitRotation blocks until every rotation triggered on w so far has finished
// (or the rotation goroutine has exited). It returns false if that did not
// happen within the (generous, wall-clock) watchdog; callers must treat that as
// inconclusive, not as a verdict.
func WaitRotation(w *wal.WAL, watchdog time.Duration) bool {
	rr, ok := rots.Load(w)
	if !ok {
		return true // nothing was ever triggered on w (or it was forgotten)
	}
	r := rr.(*rot)
	deadline := time.Time{}
	for i := 0; ; i++ {
		if r.finished.Load() >= r.triggered.Load() || r.exited.Load() > 0 {
			return true
		}
		if i < 200 {
			runtime.Gosched()
			continue
		}
		if deadline.IsZero() {
			deadline = time.Now().Add(watchdog)
		}
		if time.Now().After(deadline) {
			return false
		}
		time.Sleep(20 * time.Microsecond)
	}
}

// Rotations returns (triggered, finished, exited) for w.
func Rotations(w *wal.WAL) (int64, int64, int64) {
	rr, ok := rots.Load(w)
	if !ok {
		return 0, 0, 0
	}
	r := rr.(*rot)
	return r.triggered.Load(), r.finished.Load(), r.exited.Load()
}

// Track creates the bookkeeping for w (done by drv when it opens a WAL), so that
// rotate.done / rotate.exit are counted even if no rotation was ever triggered.
func Track(w *wal.WAL) { rotOf(w) }

// Forget drops the bookkeeping for w.
func Forget(w *wal.WAL) { rots.Delete(w) }
