package checks

import (
	"context"
	"errors"
	"fmt"
	"math/rand"
	"os"
	"path/filepath"
	"runtime"
	"strings"
	"sync"
	"sync/atomic"
	"time"

	"github.com/hashicorp/raft"
	raftboltdb "github.com/hashicorp/raft-boltdb/v2"
	"github.com/hashicorp/raft-wal/migrate"

	"verif/internal/drv"
	"verif/internal/evid"
	"verif/internal/gen"
	"verif/internal/model"
	"verif/internal/simfs"
)

func init() {
	register("C19", &Check{Level: "exploration", Run: runC19})
}

type c19Store interface {
	raft.LogStore
	raft.StableStore
}

// c19Open returns a store of the given kind plus a cleanup.
func c19Open(kind string, seg int) (c19Store, func(), error) {
	switch kind {
	case "wal":
		disk := simfs.New(simfs.Strict)
		w, err := drv.OpenSim(disk, drv.Cfg{SegSize: seg})
		if err != nil {
			return nil, nil, err
		}
		return w, func() { drv.CloseWAL(w) }, nil
	case "inmem":
		return raft.NewInmemStore(), func() {}, nil
	case "bolt":
		dir, err := os.MkdirTemp("", "verif-c19-")
		if err != nil {
			return nil, nil, err
		}
		b, err := raftboltdb.New(raftboltdb.Options{Path: filepath.Join(dir, "raft.db"), NoSync: true})
		if err != nil {
			os.RemoveAll(dir)
			return nil, nil, err
		}
		return b, func() { b.Close(); os.RemoveAll(dir) }, nil
	}
	return nil, nil, fmt.Errorf("unknown store kind %s", kind)
}

// cancelStore cancels a context at its n-th GetLog or StoreLogs.
type cancelStore struct {
	raft.LogStore
	cancel   context.CancelFunc
	atGet    int64
	atStore  int64
	gets     atomic.Int64
	stores   atomic.Int64
	failAt   int64 // StoreLogs call that returns an error (0 = never)
	failGet  int64
	injected error
}

func (s *cancelStore) GetLog(i uint64, l *raft.Log) error {
	n := s.gets.Add(1)
	if s.atGet > 0 && n == s.atGet {
		s.cancel()
	}
	if s.failGet > 0 && n == s.failGet {
		return s.injected
	}
	return s.LogStore.GetLog(i, l)
}
func (s *cancelStore) StoreLogs(ls []*raft.Log) error {
	n := s.stores.Add(1)
	if s.atStore > 0 && n == s.atStore {
		s.cancel()
	}
	if s.failAt > 0 && n == s.failAt {
		return s.injected
	}
	return s.LogStore.StoreLogs(ls)
}

// the first wait for a channel that is never closed is generous (a verdict by watchdog);
// once one has been seen the run is failing anyway and later cases wait less
var c19HangSeen atomic.Bool

func c19HangWait() time.Duration {
	if c19HangSeen.Load() {
		return 2 * time.Second
	}
	return 60 * time.Second
}

type c19Case struct {
	Src, Dst   string
	N          int
	First      uint64
	BatchBytes int
	BatchClass string
	Sizes      string
	Progress   string // nil | unbuffered | buffered
	PreCancel  bool   // the context is already cancelled when CopyLogs is called
	CancelGet  int64
	CancelPut  int64
	FailPut    int64
	Seed       int64
}

func c19Run(c *evid.Ctx, cs c19Case) {
	rng := rand.New(rand.NewSource(cs.Seed))
	src, cleanS, err := c19Open(cs.Src, 2048)
	if err != nil {
		c.Inconclusive("cannot open source store %s: %v", cs.Src, err)
		return
	}
	defer cleanS()
	dst, cleanD, err := c19Open(cs.Dst, 1024)
	if err != nil {
		c.Inconclusive("cannot open destination store %s: %v", cs.Dst, err)
		return
	}
	defer cleanD()
	m := model.NewLog()
	var sizes []int
	if cs.N > 0 {
		var logs []*raft.Log
		for i := 0; i < cs.N; i++ {
			var sz int
			switch cs.Sizes {
			case "uniform":
				sz = 40
			case "zero":
				sz = 0
			case "mixed":
				sz = []int{0, 5, 40, 300, 2000, 9000}[rng.Intn(6)]
			default: // "spiky": mostly small with a few large ones
				sz = 10 + rng.Intn(20)
				if rng.Intn(6) == 0 {
					sz = 3000 + rng.Intn(100000)
				}
			}
			sizes = append(sizes, sz)
			logs = append(logs, gen.Entry(rng, cs.First+uint64(i), "m", sz))
			if len(logs) == 7 || i == cs.N-1 {
				if err := src.StoreLogs(logs); err != nil {
					c.Inconclusive("cannot fill source %s: %v", cs.Src, err)
					return
				}
				m.Append(logs, i, true)
				logs = nil
			}
		}
	}
	bb := cs.BatchBytes
	if cs.BatchClass != "" && len(sizes) > 0 {
		s0 := sizes[rng.Intn(len(sizes))] + 32
		sum := 0
		for _, s := range sizes {
			sum += s + 32
		}
		switch cs.BatchClass {
		case "size-1":
			bb = s0 - 1
		case "size":
			bb = s0
		case "size+1":
			bb = s0 + 1
		case "sum":
			bb = sum
		case "2sizes":
			bb = s0 * 2
		}
	}
	ctx, cancel := context.WithCancel(context.Background())
	defer cancel()
	var progress chan string
	var drained sync.WaitGroup
	closed := make(chan struct{})
	switch cs.Progress {
	case "unbuffered", "unbuffered-late":
		progress = make(chan string)
	case "buffered":
		progress = make(chan string, 1024)
	case "full-late":
		progress = make(chan string, 1)
		progress <- "stale"
	}
	// "-late": nobody receives while the copy runs (every update finds the channel not
	// ready); the consumer starts ranging only after CopyLogs has returned
	late := strings.HasSuffix(cs.Progress, "-late")
	startDrain := func() {
		drained.Add(1)
		go func() {
			defer drained.Done()
			for range progress {
			}
			close(closed)
		}()
	}
	if progress != nil && !late {
		startDrain()
	}
	injected := errors.New("injected store failure")
	ws := &cancelStore{LogStore: src, cancel: cancel, atGet: cs.CancelGet, injected: injected}
	wd := &cancelStore{LogStore: dst, cancel: cancel, atStore: cs.CancelPut, failAt: cs.FailPut, injected: injected}
	c.Count("copies", 1)
	c.Distinct("copy_classes", fmt.Sprintf("%s->%s|n=%s|first=%s|batch=%s|sizes=%s|cancel=%v|fail=%v", cs.Src, cs.Dst, nClass(cs.N), firstClass(cs.First), cs.BatchClass+batchAbs(cs.BatchBytes, cs.BatchClass), cs.Sizes, cs.CancelGet+cs.CancelPut > 0, cs.FailPut > 0))
	replay := map[string]any{"case": cs, "batch_bytes": bb}
	if cs.PreCancel {
		cancel()
	}
	err = migrate.CopyLogs(ctx, wd, ws, bb, progress)
	if cs.PreCancel {
		c.Count("pre_cancelled_copies", 1)
		if err == nil && cs.N > 0 {
			c.Violation("C19:cancel-ignored", fmt.Sprintf("CopyLogs was called with a context that was already cancelled, copied %d entries (batchBytes=%d) and returned nil", cs.N, bb), replay)
		} else if err != nil && !errors.Is(err, context.Canceled) {
			c.Violation("C19:cancel-wrong-error", fmt.Sprintf("pre-cancelled copy returned %v, want the context's error", err), replay)
		}
	}
	if late {
		startDrain()
	}
	if progress != nil {
		// "the progress channel is always closed on return": the drainer must finish
		select {
		case <-closed:
		case <-time.After(c19HangWait()):
			c19HangSeen.Store(true)
			c.Violation("C19:progress-not-closed", "CopyLogs returned but the progress channel was not closed", replay)
			close(progress)
		}
		drained.Wait()
	}
	cancelled := cs.PreCancel || (cs.CancelGet > 0 && ws.gets.Load() >= cs.CancelGet) || (cs.CancelPut > 0 && wd.stores.Load() >= cs.CancelPut)
	failed := cs.FailPut > 0 && wd.stores.Load() >= cs.FailPut
	dObs := drv.Observe(dst, model.ProbeSet(nil, m))
	switch {
	case failed:
		if err == nil {
			c.Violation("C19:store-error-swallowed", "destination StoreLogs failed but CopyLogs returned nil", replay)
		}
		c19Prefix(c, m, dObs, replay, "after-store-error")
	case cancelled:
		if err == nil {
			// cancellation may arrive after the last check; then the copy must be complete -
			// but it must not have gone on reading or storing afterwards
			if (cs.CancelGet > 0 && ws.gets.Load() > cs.CancelGet) || (cs.CancelPut > 0 && wd.stores.Load() > cs.CancelPut) {
				c.Violation("C19:cancel-ignored", fmt.Sprintf("the context was cancelled during source read %d / destination store %d, yet CopyLogs went on (%d reads, %d stores in total) and returned nil", cs.CancelGet, cs.CancelPut, ws.gets.Load(), wd.stores.Load()), replay)
			}
			if d := m.Diff(dObs); d != "" {
				c.Violation("C19:cancel-nil-incomplete", "CopyLogs returned nil after cancellation but the destination is incomplete: "+d, replay)
			}
		} else if !errors.Is(err, context.Canceled) {
			c.Violation("C19:cancel-wrong-error", fmt.Sprintf("cancelled copy returned %v, want the context's error", err), replay)
		}
		c19Prefix(c, m, dObs, replay, "after-cancel")
		c.Count("cancelled_copies", 1)
	default:
		if err != nil {
			c.Violation("C19:copy-failed:"+nClass(cs.N)+":"+cs.Src+"->"+cs.Dst, fmt.Sprintf("CopyLogs failed on a healthy source (n=%d first=%d batchBytes=%d sizes=%s): %v", cs.N, cs.First, bb, cs.Sizes, err), replay)
			return
		}
		if d := m.Diff(dObs); d != "" {
			c.Violation("C19:copy-differs:"+cs.Src+"->"+cs.Dst, fmt.Sprintf("destination differs from source (n=%d first=%d batchBytes=%d): %s", cs.N, cs.First, bb, d), replay)
		}
	}
}

// c19Prefix: the destination must hold a prefix of the source.
func c19Prefix(c *evid.Ctx, m *model.Log, o *model.Obs, replay any, when string) {
	if o.Last == 0 && o.First == 0 {
		return
	}
	if o.First != m.First || o.Last > m.Last {
		c.Violation("C19:not-a-prefix:"+when, fmt.Sprintf("destination [%d,%d] is not a prefix of source [%d,%d]", o.First, o.Last, m.First, m.Last), replay)
		return
	}
	for i := o.First; i <= o.Last; i++ {
		g := o.Got[i]
		if g == nil || model.LogDiff(g, m.Ents[i].Log) != "" {
			c.Violation("C19:not-a-prefix:"+when, fmt.Sprintf("destination entry %d missing or different", i), replay)
			return
		}
	}
}

func nClass(n int) string {
	switch {
	case n == 0:
		return "0"
	case n == 1:
		return "1"
	case n < 10:
		return "few"
	}
	return "many"
}
func firstClass(f uint64) string {
	switch {
	case f == 1:
		return "1"
	case f < 100:
		return "low"
	case f < 1<<32:
		return "mid"
	}
	return "huge"
}
func batchAbs(b int, class string) string {
	if class != "" {
		return ""
	}
	switch {
	case b <= 1:
		return fmt.Sprint(b)
	case b < 1000:
		return "small"
	case b < 1<<20:
		return "medium"
	}
	return "huge"
}

func runC19(c *evid.Ctx) {
	c.Rule("CopyLogs between every pairing of {WAL, raft-boltdb v2, InmemStore} for generated sources (length 0..200, first index 1/2/1000/2^40, entry sizes uniform/zero/mixed/spiky up to 100KB), batchBytes in {0,1,size-1,size,size+1,2 sizes,sum,huge}, nil/unbuffered/buffered progress channels, deterministic cancellation at the n-th GetLog/StoreLogs and injected destination errors; plus CopyStable with standard and extra keys; oracle: destination == source (or a prefix + ctx error when cancelled), progress closed; non-trivial = distinct (pairing, length class, first class, batch class, size mix, cancelled, failed)",
		"copies", "copy_classes")
	n := 3000
	if !quick(c) {
		n = 60000
	}
	rng := rand.New(rand.NewSource(c.Seed))
	kinds := []string{"wal", "inmem", "bolt"}
	var cases []c19Case
	for i := 0; i < n; i++ {
		cs := c19Case{Seed: c.Seed*1000003 + int64(i)}
		cs.Src = kinds[rng.Intn(3)]
		cs.Dst = kinds[rng.Intn(3)]
		if i%3 == 0 {
			cs.Dst = "wal" // the destination that enforces contiguity
		}
		cs.N = []int{0, 0, 1, 2, 3, 7, 20, 64, 200}[rng.Intn(9)]
		if quick(c) && cs.N == 200 && rng.Intn(2) == 0 {
			cs.N = 33
		}
		cs.First = []uint64{1, 1, 2, 1000, 1 << 40}[rng.Intn(5)]
		cs.Sizes = []string{"uniform", "zero", "mixed", "spiky", "spiky"}[rng.Intn(5)]
		switch rng.Intn(9) {
		case 0:
			cs.BatchBytes = 0
		case 1:
			cs.BatchBytes = 1
		case 2:
			cs.BatchBytes = 1 << 30
		case 3:
			cs.BatchClass = "size-1"
		case 4:
			cs.BatchClass = "size"
		case 5:
			cs.BatchClass = "size+1"
		case 6:
			cs.BatchClass = "sum"
		case 7:
			cs.BatchClass = "2sizes"
		default:
			cs.BatchBytes = 100 + rng.Intn(5000)
		}
		cs.Progress = []string{"nil", "unbuffered", "buffered", "unbuffered-late", "full-late"}[rng.Intn(5)]
		if cs.N > 0 {
			switch rng.Intn(8) {
			case 0:
				cs.CancelGet = int64(1 + rng.Intn(cs.N))
			case 1:
				cs.CancelPut = int64(1 + rng.Intn(3))
			case 2:
				cs.FailPut = int64(1 + rng.Intn(3))
			case 3:
				if rng.Intn(2) == 0 {
					cs.PreCancel = true
				}
			}
		}
		cases = append(cases, cs)
	}
	c.Sample(cases[0])
	c.Sample(cases[1])
	jobs := make(chan c19Case, 64)
	var wg sync.WaitGroup
	for i := 0; i < runtime.NumCPU(); i++ {
		wg.Add(1)
		go func() {
			defer wg.Done()
			for cs := range jobs {
				c19Run(c, cs)
			}
		}()
	}
	for _, cs := range cases {
		jobs <- cs
	}
	close(jobs)
	wg.Wait()
	c19Stable(c, rng)
}

// c19Stable checks CopyStable over the store pairings.
func c19Stable(c *evid.Ctx, rng *rand.Rand) {
	kinds := []string{"wal", "inmem", "bolt"}
	rounds := 30
	if !quick(c) {
		rounds = 600
	}
	for r := 0; r < rounds; r++ {
		sk, dk := kinds[rng.Intn(3)], kinds[rng.Intn(3)]
		src, cs, err := c19Open(sk, 1024)
		if err != nil {
			continue
		}
		dst, cd, err := c19Open(dk, 1024)
		if err != nil {
			cs()
			continue
		}
		ints := map[string]uint64{"CurrentTerm": rng.Uint64(), "LastVoteTerm": []uint64{0, 1, ^uint64(0)}[rng.Intn(3)]}
		strs := map[string][]byte{"LastVoteCand": []byte(fmt.Sprintf("node-%d", rng.Intn(100)))}
		var extraK, extraI [][]byte
		for i := 0; i < rng.Intn(4); i++ {
			k := fmt.Sprintf("xk%d", i)
			strs[k] = []byte(fmt.Sprintf("val%d-%d", i, rng.Intn(1000)))
			extraK = append(extraK, []byte(k))
		}
		for i := 0; i < rng.Intn(4); i++ {
			k := fmt.Sprintf("xi%d", i)
			ints[k] = rng.Uint64()
			extraI = append(extraI, []byte(k))
		}
		// stores that keep Set and SetUint64 in separate key spaces (raft.InmemStore) may hold
		// the same name in both: each must be copied in its own space
		if sk == "inmem" && dk == "inmem" && rng.Intn(2) == 0 {
			name := []string{"CurrentTerm", "xi0", "shared"}[rng.Intn(3)]
			if _, isInt := ints[name]; !isInt {
				ints[name] = rng.Uint64()
				extraI = append(extraI, []byte(name))
			}
			strs[name] = []byte("same name, other key space")
			extraK = append(extraK, []byte(name))
			c.Distinct("copy_classes", "stable|same key name in both key spaces")
		}
		for k, v := range ints {
			src.SetUint64([]byte(k), v)
		}
		for k, v := range strs {
			src.Set([]byte(k), v)
		}
		// stale values in the destination must be overwritten
		dst.SetUint64([]byte("CurrentTerm"), 7)
		var progress chan string
		closed := make(chan struct{})
		lateStable := false
		switch rng.Intn(4) {
		case 0:
			progress = make(chan string, 64)
		case 1:
			// unbuffered, and nobody receives until CopyStable has returned
			progress = make(chan string)
			lateStable = true
		}
		drain := func() {
			go func() {
				for range progress {
				}
				close(closed)
			}()
		}
		if progress != nil && !lateStable {
			drain()
		}
		err = migrate.CopyStable(context.Background(), dst, src, extraK, extraI, progress)
		if lateStable {
			drain()
			c.Distinct("copy_classes", "stable|progress consumer starts after return")
		}
		c.Count("stable_copies", 1)
		c.Count("copies", 1)
		c.Distinct("copy_classes", fmt.Sprintf("stable:%s->%s|extra=%d,%d", sk, dk, len(extraK), len(extraI)))
		replay := map[string]any{"src": sk, "dst": dk, "extra_keys": len(extraK), "extra_int_keys": len(extraI)}
		if progress != nil {
			select {
			case <-closed:
			case <-time.After(c19HangWait()):
				c19HangSeen.Store(true)
				c.Violation("C19:stable-progress-not-closed", "CopyStable returned but the progress channel was not closed", replay)
			}
		}
		if err != nil {
			c.Violation("C19:copystable-failed:"+sk+"->"+dk, fmt.Sprintf("CopyStable failed: %v", err), replay)
		} else {
			for k, v := range ints {
				if got, err := dst.GetUint64([]byte(k)); err != nil || got != v {
					c.Violation("C19:stable-int-differs", fmt.Sprintf("int key %s: got %d,%v want %d", k, got, err, v), replay)
				}
			}
			for k, v := range strs {
				if got, err := dst.Get([]byte(k)); err != nil || string(got) != string(v) {
					c.Violation("C19:stable-key-differs", fmt.Sprintf("key %s: got %q,%v want %q", k, got, err, v), replay)
				}
			}
		}
		cs()
		cd()
	}
}
