package checks

import (
	"errors"
	"fmt"
	"time"

	"github.com/hashicorp/raft"
	wal "github.com/hashicorp/raft-wal"

	"verif/internal/drv"
	"verif/internal/evid"
	"verif/internal/gen"
	"verif/internal/hooks"
	"verif/internal/model"
	"verif/internal/sched"
)

// c14LateClose: Close is not racing with anything here - the race happened EARLIER. A reader
// spans a state replacement (parked between loading the state and taking its reference, or
// while holding the old state), the writer's operation completes, the reader finishes, and
// only then Close runs - either with nothing in flight or with one more read pinned. Whatever
// the earlier interleaving did to the reference counts shows now: Close must release every
// handle once reads finished (never earlier: a pinned read must still get its entry or
// ErrClosed, not a "file already closed"), and the reopened log must equal the model.
func c14LateClose(c *evid.Ctx) {
	type script struct {
		Read       string `json:"read"`         // get | first | last
		ReaderPark string `json:"reader_park"`  // where the first reader is held
		WriterOp   string `json:"writer_op"`    // what replaces the state meanwhile
		WriterPark string `json:"writer_park"`  // "" = the writer completes before the reader resumes
		Second     string `json:"close_mode"`   // idle | pinned-read
		Repeat     int    `json:"repeat_spans"` // how many times the span is repeated before Close
	}
	var scripts []script
	for _, rd := range []string{"get", "first", "last"} {
		pts := []string{"acquireState.loaded"}
		if rd == "get" {
			pts = append(pts, "GetLog.acquired", "readFrame.beforeRead")
		}
		for _, rp := range pts {
			for _, wo := range []string{"delete-head", "delete-tail", "delete-all", "append-rotate", "append-plain"} {
				for _, wp := range []string{"", "mutate.afterStore"} {
					if wp != "" && (rp != "acquireState.loaded" || wo == "append-plain") {
						continue
					}
					for _, sec := range []string{"idle", "pinned-read"} {
						rep := 1
						if rp == "acquireState.loaded" && sec == "idle" {
							rep = 2
						}
						scripts = append(scripts, script{rd, rp, wo, wp, sec, rep})
					}
				}
			}
		}
	}
	for i, sc := range scripts {
		e, cleanup, err := c14Setup(false, false, c.Seed*4001+int64(i))
		if err != nil {
			c.Inconclusive("late-close setup failed: %v", err)
			return
		}
		replay := map[string]any{"scenario": "late-close", "script": sc}
		ctl := sched.New()
		remove := ctl.Install()
		c.Count("scripts", 1)
		c.Count("late_close_scripts", 1)
		bad := false
		for rep := 0; rep < sc.Repeat && !bad; rep++ {
			first, last := e.l.First, e.l.Last
			if last < first+5 {
				// refill so that every writer op has something to work on
				var logs []*raft.Log
				for k := uint64(0); k < 6; k++ {
					logs = append(logs, gen.Entry(e.rng, last+1+k, "r", 40))
				}
				if first == 0 || last == 0 {
					first = logs[0].Index
				}
				if r := drv.Apply(e.w, gen.Op{Kind: "append", Logs: logs}); r.Err != nil {
					c.Violation("C14:late-close:append", r.Err.Error(), replay)
					bad = true
					break
				}
				e.l.Append(logs, 500+rep, true)
				first, last = e.l.First, e.l.Last
			}
			readIdx := first + 4
			pre := e.l.Clone()
			role := fmt.Sprintf("reader%d", rep)
			park := ctl.ParkAt(role, sc.ReaderPark, 0)
			type rres struct {
				v   uint64
				l   raft.Log
				err error
				pan any
			}
			done := make(chan rres, 1)
			go func() {
				ctl.Tag(role)
				var r rres
				defer func() {
					if p := recover(); p != nil {
						r.pan = p
					}
					done <- r
				}()
				switch sc.Read {
				case "get":
					r.err = e.w.GetLog(readIdx, &r.l)
				case "first":
					r.v, r.err = e.w.FirstIndex()
				default:
					r.v, r.err = e.w.LastIndex()
				}
			}()
			if !park.WaitReached(5 * time.Second) {
				park.Release()
				<-done
				c.Count("late_close_point_not_on_path", 1)
				continue
			}
			var op gen.Op
			switch sc.WriterOp {
			case "delete-head":
				op = gen.Op{Kind: "delete", Min: first, Max: first + 3}
			case "delete-tail":
				op = gen.Op{Kind: "delete", Min: last - 1, Max: last}
			case "delete-all":
				op = gen.Op{Kind: "delete", Min: first, Max: last}
			case "append-rotate":
				op = gen.Op{Kind: "append", Logs: []*raft.Log{gen.Entry(e.rng, last+1, "w", 280)}}
			default:
				op = gen.Op{Kind: "append", Logs: []*raft.Log{gen.Entry(e.rng, last+1, "w", 20)}}
			}
			var wp *sched.Parking
			if sc.WriterPark != "" {
				wp = ctl.ParkAt("*", sc.WriterPark, 0) // the rotation commits on the background goroutine
			}
			werr := make(chan error, 1)
			go func() {
				ctl.Tag("writer")
				r := drv.ApplyNoWait(e.w, op)
				werr <- r.Err
			}()
			var rr rres
			if wp != nil && wp.WaitReached(10*time.Second) {
				// the new state is published, the writer still holds its reference on the old one
				park.Release()
				rr = <-done
				wp.Release()
				c.Count("late_close_reader_retried_before_writer_released", 1)
				if err := <-werr; err != nil {
					c.Violation("C14:late-close:writer-error", err.Error(), replay)
					bad = true
				}
			} else {
				if wp != nil {
					wp.Release()
					c.Count("late_close_writer_point_not_reached:"+sc.WriterOp, 1)
				}
				select {
				case err := <-werr:
					if err != nil {
						c.Violation("C14:late-close:writer-error", err.Error(), replay)
						bad = true
					}
				case <-time.After(c14Watchdog):
					c.Violation("C14:late-close:writer-blocked", fmt.Sprintf("script %+v: the writer did not complete while a reader was parked at %s", sc, sc.ReaderPark), replay)
					bad = true
				}
				hooks.WaitRotation(e.w, drv.Watchdog)
				park.Release()
				rr = <-done
			}
			hooks.WaitRotation(e.w, drv.Watchdog)
			if op.Kind == "append" {
				e.l.Append(op.Logs, 700+rep, true)
			} else {
				e.l.DeleteRange(op.Min, op.Max)
			}
			// the spanning read: a value of the old or the new state
			removed := op.Kind == "delete" && readIdx >= op.Min && readIdx <= op.Max
			switch {
			case rr.pan != nil:
				c.Violation("C14:late-close:panic", fmt.Sprintf("script %+v: read panicked: %v", sc, rr.pan), replay)
				bad = true
			case rr.err != nil && !(sc.Read == "get" && removed):
				c.Violation("C14:late-close:read-error", fmt.Sprintf("script %+v: the spanning %s returned %v", sc, sc.Read, rr.err), replay)
				bad = true
			case rr.err == nil && sc.Read == "get":
				if d := model.LogDiff(&rr.l, pre.Ents[readIdx].Log); d != "" {
					c.Violation("C14:late-close:wrong-data", fmt.Sprintf("script %+v: GetLog(%d): %s", sc, readIdx, d), replay)
					bad = true
				}
			case rr.err == nil && sc.Read == "first":
				if rr.v != pre.First && rr.v != e.l.First {
					c.Violation("C14:late-close:wrong-data", fmt.Sprintf("script %+v: FirstIndex=%d, old %d new %d", sc, rr.v, pre.First, e.l.First), replay)
					bad = true
				}
			case rr.err == nil && sc.Read == "last":
				if rr.v != pre.Last && rr.v != e.l.Last {
					c.Violation("C14:late-close:wrong-data", fmt.Sprintf("script %+v: LastIndex=%d, old %d new %d", sc, rr.v, pre.Last, e.l.Last), replay)
					bad = true
				}
			}
		}
		// ---- now Close ----
		var pin *sched.Parking
		pinDone := make(chan error, 1)
		var pinLog raft.Log
		pinIdx := e.l.Last
		if sc.Second == "pinned-read" && e.l.Last >= e.l.First && e.l.Last > 0 && !bad {
			pinIdx = e.l.First
			pin = ctl.ParkAt("pinned", "GetLog.acquired", 0)
			go func() {
				ctl.Tag("pinned")
				pinDone <- e.w.GetLog(pinIdx, &pinLog)
			}()
			if !pin.WaitReached(5 * time.Second) {
				pin.Release()
				<-pinDone
				pin = nil
			}
		}
		cd := make(chan error, 1)
		go func() { cd <- e.w.Close() }()
		select {
		case err := <-cd:
			if err != nil {
				c.Violation("C14:late-close:close-error", err.Error(), replay)
			}
		case <-time.After(c14Watchdog):
			c.Violation("C14:late-close:close-blocked", fmt.Sprintf("script %+v: Close did not return", sc), map[string]any{"script": sc, "stack": stacksMatching("raft-wal.(*WAL).Close")})
			bad = true
		}
		if pin != nil {
			if f, _ := e.disk.OpenHandles(); f == 0 {
				// every handle already closed while a read still holds a reference: the read below
				// will show what that means; recorded for the evidence
				c.Count("late_close_handles_zero_while_read_pinned", 1)
			}
			pin.Release()
			select {
			case err := <-pinDone:
				switch {
				case err == nil:
					if d := model.LogDiff(&pinLog, e.l.Ents[pinIdx].Log); d != "" {
						c.Violation("C14:late-close:wrong-data", fmt.Sprintf("script %+v: pinned GetLog(%d) across Close: %s", sc, pinIdx, d), replay)
					}
					c.Count("late_close_pinned_read_completed", 1)
				case errors.Is(err, wal.ErrClosed):
					c.Count("late_close_pinned_read_errclosed", 1)
				default:
					c.Violation("C14:wrong-error:GetLog-pinned-across-late-close", fmt.Sprintf("script %+v: a read in flight across Close returned %q, want its entry or ErrClosed", sc, err), replay)
				}
			case <-time.After(c14Watchdog):
				c.Violation("C14:late-close:read-blocked", fmt.Sprintf("script %+v: pinned read did not return", sc), replay)
			}
		}
		remove()
		if !bad {
			if f, m := e.disk.OpenHandles(); f != 0 || m != 0 {
				c.Violation("C14:handles-leaked", fmt.Sprintf("late-close script %+v: %d file handles / %d meta stores still open after Close returned and every read finished", sc, f, m), replay)
			}
			c.Distinct("overlaps", fmt.Sprintf("late|%s|%s|%s|%s|%s", sc.Read, sc.ReaderPark, sc.WriterOp, sc.WriterPark, sc.Second))
		}
		hooks.Forget(e.w)
		if !bad {
			if err := e.open(); err != nil {
				c.Violation("C14:reopen-failed", fmt.Sprintf("late-close script %+v: Open after Close failed: %v", sc, err), replay)
			} else {
				obs := drv.Observe(e.w, model.ProbeSet([]uint64{50}, e.l, e.l))
				if d := e.l.Diff(obs); d != "" {
					c.Violation("C14:state-after-reopen:late-close", fmt.Sprintf("script %+v: after reopen %s", sc, d), replay)
				}
				drv.CloseWAL(e.w)
			}
		}
		cleanup()
	}
}
