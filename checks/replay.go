package checks

// Trace replay (the in-tree ALICE idea rebuilt on strace): a child process runs a
// workload on the production stack (real fs package, real BoltDB, real kernel)
// under strace with full write payloads; the parent replays the trace into
// per-file durable / pending state, derives power-loss images at every syscall
// boundary (subsets of the writes issued since the file's last fsync, pending
// directory operations kept or dropped), materialises each image in a temp
// directory, opens it with the production code and judges the recovered state
// against the acknowledgements seen in the trace up to that point. This is the
// only place BoltDB's own commit protocol is put under power loss.

import (
	"errors"
	"fmt"
	"math/rand"
	"os"
	"os/exec"
	"path/filepath"
	"runtime"
	"sort"
	"strconv"
	"strings"
	"sync"

	"github.com/hashicorp/go-hclog"
	"github.com/hashicorp/raft"
	wal "github.com/hashicorp/raft-wal"
	"github.com/hashicorp/raft-wal/metadb"
	"github.com/hashicorp/raft-wal/segment"

	"verif/internal/crashsim"
	"verif/internal/drv"
	"verif/internal/evid"
	"verif/internal/gen"
	"verif/internal/hooks"
	"verif/internal/model"
	"verif/internal/proc"
)

func init() {
	Children["replay-workload"] = replayChild
}

// replayEntry builds the entry for (seed, op number, index, size) the same way
// in the child and in the parent.
func replayEntry(seed int64, n int, idx uint64, size int) *raft.Log {
	return gen.Entry(rand.New(rand.NewSource(seed*7919+int64(n)*131+int64(idx))), idx, fmt.Sprintf("rp%d", n), size)
}

// replayChild: args = dir markers seed nops
func replayChild(args []string) {
	dir, markers := args[0], args[1]
	seed, _ := strconv.ParseInt(args[2], 10, 64)
	nops, _ := strconv.Atoi(args[3])
	setHeavy := len(args) > 4 && strings.HasPrefix(args[4], "stable")
	retry := len(args) > 4 && strings.Contains(args[4], "inject=")
	if retry {
		// strace counts "when=N" per thread: keep the API calls on one thread
		runtime.LockOSThread()
	}
	mf, err := os.OpenFile(markers, os.O_CREATE|os.O_WRONLY|os.O_APPEND, 0o644)
	if err != nil {
		os.Exit(5)
	}
	mark := func(format string, a ...any) { mf.Write([]byte(fmt.Sprintf(format, a...) + "\n")) }
	// with injected syscall failures every operation is repeated, unchanged, until it
	// succeeds (what raft does); it stays "in flight" for the oracle until then
	try := func(n int, f func() error) error {
		err := f()
		for t := 0; err != nil && retry && t < 8; t++ {
			mark("FAIL %d try %d: %v", n, t, err)
			err = f()
		}
		if err != nil && retry {
			mark("GIVEUP %d: %v", n, err)
			os.Exit(7)
		}
		return err
	}
	mark("BEGIN 0 open")
	w, err := wal.Open(dir, wal.WithSegmentSize(512), wal.WithLogger(hclog.NewNullLogger()))
	if err != nil {
		mark("ACK 0 open err=%v", err)
		os.Exit(6)
	}
	mark("ACK 0 open ok")
	rng := rand.New(rand.NewSource(seed))
	var first, last uint64
	for n := 1; n <= nops; n++ {
		x := rng.Intn(100)
		if setHeavy && rng.Intn(2) == 0 {
			x = 99
		}
		switch {
		case (x < 60 || last == 0) && !(setHeavy && x == 99):
			next := last + 1
			if last == 0 {
				next = []uint64{1, 1, 30}[rng.Intn(3)]
			}
			k := 1 + rng.Intn(3)
			var logs []*raft.Log
			var sizes []string
			for i := 0; i < k; i++ {
				sz := 20 + rng.Intn(220)
				sizes = append(sizes, fmt.Sprint(sz))
				logs = append(logs, replayEntry(seed, n, next+uint64(i), sz))
			}
			mark("BEGIN %d append %d %s", n, next, strings.Join(sizes, ","))
			if err := try(n, func() error { return w.StoreLogs(logs) }); err != nil {
				mark("ACK %d append err", n)
			} else {
				mark("ACK %d append ok", n)
				if last == 0 {
					first = next
				}
				last = next + uint64(k) - 1
			}
		case x < 70 && last > first+1:
			mx := first + uint64(rng.Intn(int(min(3, last-first))))
			mark("BEGIN %d delete %d %d", n, first, mx)
			if err := try(n, func() error { return w.DeleteRange(first, mx) }); err == nil {
				mark("ACK %d delete ok", n)
				first = mx + 1
			} else {
				mark("ACK %d delete err", n)
			}
		case x < 80 && last > first+1:
			mn := last - uint64(rng.Intn(int(min(3, last-first))))
			mark("BEGIN %d delete %d %d", n, mn, last)
			if err := try(n, func() error { return w.DeleteRange(mn, last) }); err == nil {
				mark("ACK %d delete ok", n)
				last = mn - 1
			} else {
				mark("ACK %d delete err", n)
			}
		case x < 84 && last > 0:
			mark("BEGIN %d delete %d %d", n, first, last)
			if err := try(n, func() error { return w.DeleteRange(first, last) }); err == nil {
				mark("ACK %d delete ok", n)
				first, last = 0, 0
			} else {
				mark("ACK %d delete err", n)
			}
		default:
			k, v := fmt.Sprintf("k%d", rng.Intn(3)), fmt.Sprintf("v%d", n)
			mark("BEGIN %d set %s %s", n, k, v)
			if err := try(n, func() error { return w.Set([]byte(k), []byte(v)) }); err == nil {
				mark("ACK %d set ok", n)
			} else {
				mark("ACK %d set err", n)
			}
		}
		hooks.WaitRotation(w, drv.Watchdog)
	}
	mark("BEGIN %d close", nops+1)
	w.Close()
	mark("ACK %d close ok", nops+1)
}

// ---- parent: replay ----

type rpWrite struct {
	off  int64
	data []byte
}

type rpFile struct {
	dur     []byte    // content as of the last fsync of this file
	pend    []rpWrite // writes (and size changes as zero-extension writes) since
	durable bool      // its directory entry is durable
}

type rpDirOp struct {
	kind     string // create | unlink | rename
	name, to string
	f        *rpFile // the file created / renamed
}

// applyDirOps applies ops (in order) to a name table.
func applyDirOps(names map[string]*rpFile, ops []rpDirOp) {
	for _, op := range ops {
		switch op.kind {
		case "create":
			names[op.name] = op.f
		case "unlink":
			delete(names, op.name)
		case "rename":
			names[op.to] = op.f
			delete(names, op.name)
		}
	}
}

type rpState struct {
	files  map[string]*rpFile // by current name
	dirOps []rpDirOp          // pending since the last directory fsync
	// names as of the last directory fsync -> file object
	durNames map[string]*rpFile
}

func (f *rpFile) current() []byte {
	b := append([]byte{}, f.dur...)
	for _, w := range f.pend {
		b = applyAt(b, w)
	}
	return b
}

func applyAt(b []byte, w rpWrite) []byte {
	end := w.off + int64(len(w.data))
	if end > int64(len(b)) {
		nb := make([]byte, end)
		copy(nb, b)
		b = nb
	}
	copy(b[w.off:], w.data)
	return b
}

// replayOracle tracks the model from the markers.
type rpOracle struct {
	seed     int64
	l        *model.Log
	stable   map[string]string
	inflight *gen.Op
	inSet    [2]string
	batch    int
	hadTrunc bool
}

func (o *rpOracle) marker(m string) {
	f := strings.Fields(m)
	if len(f) < 3 {
		return
	}
	n, _ := strconv.Atoi(f[1])
	switch f[0] {
	case "BEGIN":
		o.inflight, o.inSet = nil, [2]string{}
		switch f[2] {
		case "append":
			next, _ := strconv.ParseUint(f[3], 10, 64)
			var logs []*raft.Log
			for i, s := range strings.Split(f[4], ",") {
				sz, _ := strconv.Atoi(s)
				logs = append(logs, replayEntry(o.seed, n, next+uint64(i), sz))
			}
			o.inflight = &gen.Op{Kind: "append", Logs: logs}
		case "delete":
			mn, _ := strconv.ParseUint(f[3], 10, 64)
			mx, _ := strconv.ParseUint(f[4], 10, 64)
			o.inflight = &gen.Op{Kind: "delete", Min: mn, Max: mx}
		case "set":
			o.inSet = [2]string{f[3], f[4]}
		}
	case "ACK":
		if len(f) > 3 && f[3] == "ok" {
			if op := o.inflight; op != nil {
				o.batch++
				nl := o.l.Clone()
				if op.Kind == "append" {
					nl.Append(op.Logs, o.batch, true)
				} else {
					nl.DeleteRange(op.Min, op.Max)
					o.hadTrunc = true
				}
				o.l = nl
			}
			if o.inSet[0] != "" {
				o.stable[o.inSet[0]] = o.inSet[1]
			}
		}
		o.inflight, o.inSet = nil, [2]string{}
	}
}

// replayScenario runs one traced workload and explores its power-loss images.
// prop decides which failure classes are reported (C01, C03 or C08).
func replayScenario(c *evid.Ctx, seed int64, nops int, pointStride int, mix string) {
	tmp, err := os.MkdirTemp("", "verif-replay-")
	if err != nil {
		c.Inconclusive("cannot create temp dir: %v", err)
		return
	}
	defer os.RemoveAll(tmp)
	dir := filepath.Join(tmp, "wal")
	os.Mkdir(dir, 0o755)
	markers := filepath.Join(tmp, "markers")
	logf := filepath.Join(tmp, "trace.log")
	sargs := []string{"-f", "-y", "-xx", "-s", "2000000", "-e", "trace=openat,pwrite64,fsync,fdatasync,unlinkat,unlink,renameat,renameat2,rename,fallocate,ftruncate,write"}
	inject := ""
	if i := strings.Index(mix, "inject="); i >= 0 {
		// syscall failures injected by strace: the calls that hit them fail and are repeated by
		// the child; what is acknowledged in between must survive every power-loss image
		inject = mix[i+len("inject="):]
		sargs = append(sargs, "-e", "inject="+inject)
	}
	sargs = append(sargs, "-o", logf, os.Args[0], "-child", "replay-workload", dir, markers, fmt.Sprint(seed), fmt.Sprint(nops), mix)
	cmd := exec.Command("strace", sargs...)
	if out, err := cmd.CombinedOutput(); err != nil && inject == "" {
		c.Inconclusive("traced replay child failed: %v %.200s", err, out)
		return
	}
	if inject != "" {
		c.Count("replay_scenarios_with_injected_failures", 1)
	}
	res, err := proc.Parse(logf, markers)
	if err != nil || len(res.Unparsed) > 0 {
		c.Inconclusive("trace not fully parsed (err=%v, %d unparsed lines)", err, len(res.Unparsed))
		return
	}
	st := &rpState{files: map[string]*rpFile{}, durNames: map[string]*rpFile{}}
	or := &rpOracle{seed: seed, l: model.NewLog(), stable: map[string]string{}}
	rng := rand.New(rand.NewSource(seed))
	rel := func(p string) (string, bool) {
		if strings.HasPrefix(p, dir+"/") {
			return strings.TrimPrefix(p, dir+"/"), true
		}
		return "", false
	}
	imgNo := 0
	boundary := 0
	for _, e := range res.Events {
		explore := false
		switch e.Name {
		case "marker":
			if strings.HasSuffix(e.Marker, " err") {
				c.Inconclusive("replay: un-faulted child reported a failed call: %s", e.Marker)
				return
			}
			or.marker(e.Marker)
			continue
		case "openat":
			if n, ok := rel(e.Path); ok && !e.Failed && strings.Contains(e.Flags, "O_CREAT") {
				if _, exists := st.files[n]; !exists {
					st.files[n] = &rpFile{}
					st.dirOps = append(st.dirOps, rpDirOp{kind: "create", name: n, f: st.files[n]})
					explore = true
				}
			}
		case "pwrite64":
			if n, ok := rel(e.Path); ok && !e.Failed && st.files[n] != nil {
				data := []byte(e.Data)
				if e.Trunc || int64(len(data)) != e.Ret {
					c.Inconclusive("replay: pwrite64 payload incomplete in the trace (%d of %d bytes)", len(data), e.Ret)
					return
				}
				st.files[n].pend = append(st.files[n].pend, rpWrite{e.Off, data})
				explore = true
			}
		case "ftruncate", "fallocate":
			if n, ok := rel(e.Path); ok && !e.Failed && st.files[n] != nil {
				f := st.files[n]
				cur := int64(len(f.current()))
				if e.Len > cur {
					f.pend = append(f.pend, rpWrite{cur, make([]byte, e.Len-cur)})
				}
			}
		case "fsync", "fdatasync":
			if e.Failed {
				continue
			}
			if e.Path == dir {
				applyDirOps(st.durNames, st.dirOps)
				st.dirOps = nil
				explore = true
			} else if n, ok := rel(e.Path); ok && st.files[n] != nil {
				f := st.files[n]
				f.dur = f.current()
				f.pend = nil
				explore = true
			}
		case "unlink":
			if n, ok := rel(e.Path); ok && !e.Failed {
				delete(st.files, n)
				st.dirOps = append(st.dirOps, rpDirOp{kind: "unlink", name: n})
				explore = true
			}
		case "rename":
			if n, ok := rel(e.Path); ok && !e.Failed {
				if to, ok2 := rel(e.Path2); ok2 {
					st.files[to] = st.files[n]
					delete(st.files, n)
					st.dirOps = append(st.dirOps, rpDirOp{kind: "rename", name: n, to: to, f: st.files[to]})
					explore = true
				}
			}
		}
		if !explore {
			continue
		}
		boundary++
		if pointStride > 1 && boundary%pointStride != 0 && e.Name == "pwrite64" {
			continue
		}
		c.Count("replay_boundaries", 1)
		// variants: (how many of the pending directory operations, in order, reached the disk) x
		// (which pending writes did: all, none, a random subset with some writes torn at a
		// 512-byte boundary)
		type variant struct {
			dirK int
			mode int // 0 all, 1 none, 2 random
		}
		nd := len(st.dirOps)
		variants := []variant{{nd, 0}, {0, 1}, {nd, 2}, {rng.Intn(nd + 1), 2}}
		for k := 0; k < nd; k++ {
			variants = append(variants, variant{k, 0}, variant{k, 2})
		}
		if nd > 0 {
			variants = append(variants, variant{nd, 1})
		}
		for vi, vv := range variants {
			v := vv.mode
			imgNo++
			idir := filepath.Join(tmp, fmt.Sprintf("img%d", imgNo))
			os.Mkdir(idir, 0o755)
			names := map[string]*rpFile{}
			for n, f := range st.durNames {
				names[n] = f
			}
			applyDirOps(names, st.dirOps[:vv.dirK])
			pendingAny := len(st.dirOps) > 0
			for n, f := range names {
				if f == nil {
					continue
				}
				b := append([]byte{}, f.dur...)
				for _, w := range f.pend {
					pendingAny = true
					switch {
					case v == 0:
						b = applyAt(b, w)
					case v == 1:
					default:
						switch rng.Intn(3) {
						case 0:
							b = applyAt(b, w)
						case 1:
							if len(w.data) > 512 {
								cut := (1 + rng.Intn(len(w.data)/512)) * 512
								if rng.Intn(2) == 0 {
									b = applyAt(b, rpWrite{w.off, w.data[:cut]})
								} else {
									b = applyAt(b, rpWrite{w.off + int64(cut), w.data[cut:]})
								}
							}
						}
					}
				}
				os.WriteFile(filepath.Join(idir, n), b, 0o644)
			}
			replayJudge(c, idir, or, map[string]any{"seed": seed, "ops": nops, "mix": mix, "event": e.Raw[:min(len(e.Raw), 120)], "line": e.End, "variant": fmt.Sprintf("dirops=%d/%d,writes=%d", vv.dirK, nd, v)})
			os.RemoveAll(idir)
			c.Count("replay_images", 1)
			c.Count("images", 1)
			if pendingAny {
				c.Distinct("replay_nontrivial", fmt.Sprintf("%d/%d", e.End, vi))
			}
			if !pendingAny {
				break // all variants are the same image
			}
		}
	}
	c.Count("replay_scenarios", 1)
}

// replayJudge opens an image with the production code and compares.
func replayJudge(c *evid.Ctx, idir string, or *rpOracle, replay map[string]any) {
	report := func(props []string, class, desc string) {
		for _, p := range props {
			if p == c.ID {
				c.Violation(c.ID+":replay:"+class, "power-loss image replayed from the syscall trace of the production stack: "+desc, replay)
				return
			}
		}
		c.Count("signals_for_other_properties", 1)
		if os.Getenv("VERIF_DEBUG") != "" {
			fmt.Println("DEBUG signal", props, class, desc, replay)
		}
	}
	if _, err := os.Stat(filepath.Join(idir, "wal-meta.db")); err != nil {
		// the metadata DB itself did not survive: only legal while nothing was ever acknowledged
		if or.l.Len() > 0 || len(or.stable) > 0 {
			report([]string{"C01", "C03", "C08"}, "meta-db-lost", "wal-meta.db is absent from the image although operations had been acknowledged")
			return
		}
		// nothing acknowledged yet: the directory must open as a new, empty log
		c.Count("replay_images_without_meta_db", 1)
	}
	var w *wal.WAL
	var err error
	func() {
		defer func() {
			if r := recover(); r != nil {
				err = fmt.Errorf("Open panicked: %v", r)
			}
		}()
		w, err = drv.OpenDir(idir, drv.Cfg{SegSize: 512})
	}()
	if err != nil {
		props := []string{"C01", "C03"}
		if errors.Is(err, os.ErrExist) {
			// creating a segment collided with a file that is already there (C13's last sentence)
			props = append(props, "C13")
		}
		report(props, "open-failed", fmt.Sprintf("Open failed: %v", err))
		return
	}
	defer func() {
		// C13 on the production stack: once Open (and the append below) are done and the WAL
		// is closed, the directory holds exactly the files of the segments in BoltDB
		hooks.WaitRotation(w, drv.Watchdog)
		drv.CloseWAL(w)
		var db metadb.BoltMetaDB
		st, err := db.Load(idir)
		db.Close()
		if err != nil {
			report([]string{"C13", "C03"}, "meta-unreadable-after-close", fmt.Sprintf("metadata cannot be loaded after Open+Close: %v", err))
			return
		}
		want := map[string]bool{}
		for _, si := range st.Segments {
			want[segment.FileName(si)] = true
		}
		ents, _ := os.ReadDir(idir)
		var extra, missing []string
		for _, e := range ents {
			if strings.HasSuffix(e.Name(), ".wal") {
				if !want[e.Name()] {
					extra = append(extra, e.Name())
				}
				delete(want, e.Name())
			}
		}
		for n := range want {
			missing = append(missing, n)
		}
		c.Count("replay_listings_compared", 1)
		if len(extra)+len(missing) > 0 {
			report([]string{"C13"}, fmt.Sprintf("listing:extra=%d,missing=%d", len(extra), len(missing)), fmt.Sprintf("after Open, one append and Close the directory differs from the committed metadata: extra files %v, missing files %v", extra, missing))
		}
	}()
	legal := crashsim.Expand(or.l, or.inflight, or.batch+1)
	obs := drv.Observe(w, model.ProbeSet(nil, legal...))
	ok := false
	for _, cand := range legal {
		if cand.Diff(obs) == "" {
			ok = true
			break
		}
	}
	if !ok {
		best := ""
		for _, cand := range legal {
			if d := cand.Diff(obs); best == "" || len(d) < len(best) {
				best = d
			}
		}
		props := []string{"C01", "C02"}
		if or.hadTrunc {
			props = append(props, "C04")
		}
		report(props, "state-mismatch", fmt.Sprintf("recovered state matches none of %d legal states (in flight: %v): %s", len(legal), or.inflight != nil, best))
	}
	keys := make([]string, 0, len(or.stable))
	for k := range or.stable {
		keys = append(keys, k)
	}
	sort.Strings(keys)
	for _, k := range keys {
		got, err := w.Get([]byte(k))
		if err != nil || (string(got) != or.stable[k] && !(or.inSet[0] == k && string(got) == or.inSet[1])) {
			report([]string{"C08"}, "stable-lost", fmt.Sprintf("Get(%s)=%q (%v), acknowledged %q", k, got, err, or.stable[k]))
		}
		c.Count("replay_stable_keys_checked", 1)
	}
	// usable afterwards
	f, _ := w.FirstIndex()
	la, _ := w.LastIndex()
	next := la + 1
	if la == 0 {
		next = 1
	}
	_ = f
	if err := w.StoreLogs([]*raft.Log{replayEntry(1, 0, next, 30)}); err != nil {
		report([]string{"C03"}, "append-after-recovery", fmt.Sprintf("StoreLogs after recovery failed: %v", err))
	}
}

var replayOnce sync.Once

// replayPart is called by the C01 / C03 / C08 checks.
func replayPart(c *evid.Ctx, scenarios, nops, stride int, mix string) {
	if _, err := exec.LookPath("strace"); err != nil {
		c.Inconclusive("strace not available: no power-loss images of the production stack")
		return
	}
	var wg sync.WaitGroup
	sem := make(chan struct{}, 8)
	for i := 0; i < scenarios; i++ {
		wg.Add(1)
		sem <- struct{}{}
		go func(i int) {
			defer wg.Done()
			defer func() { <-sem }()
			replayScenario(c, c.Seed*4241+int64(i), nops, stride, mix)
		}(i)
	}
	wg.Wait()
}
