package checks

import (
	"bytes"
	"encoding/binary"
	"errors"
	"fmt"
	"math/rand"
	"os"
	"path/filepath"
	"runtime"
	"sort"
	"strings"
	"time"

	"github.com/hashicorp/raft"
	wal "github.com/hashicorp/raft-wal"
	"github.com/hashicorp/raft-wal/segment"
	"github.com/hashicorp/raft-wal/types"
	"go.etcd.io/bbolt"

	"verif/internal/drv"
	"verif/internal/evid"
	"verif/internal/gen"
	"verif/internal/model"
	"verif/internal/simfs"
)

func init() {
	register("C11", &Check{Level: "exploration", Run: runC11})
}

var errBudget = errors.New("harness: I/O step budget exceeded")

// budgetHook turns "loops forever" into a logical criterion: more VFS calls
// than the budget makes every further call fail (which also ends the loop).
type budgetHook struct {
	limit    int
	calls    int
	exceeded bool
}

func (b *budgetHook) Pre(d *simfs.Disk, c simfs.Call) error {
	b.calls++
	if b.limit > 0 && b.calls > b.limit {
		b.exceeded = true
		return errBudget
	}
	return nil
}
func (b *budgetHook) Mid(*simfs.Disk, simfs.Call)        {}
func (b *budgetHook) Post(*simfs.Disk, simfs.Call) error { return nil }

// c11Base is a valid directory plus what it holds.
type c11Base struct {
	snap  *simfs.Snapshot
	seg   int
	l     *model.Log
	files []string
	meta  types.PersistentState
	bytes int
}

func c11Build(rng *rand.Rand) *c11Base {
	seg := []int{256, 512, 1024, 4096}[rng.Intn(4)]
	disk := simfs.New(simfs.Strict)
	w, err := drv.OpenSim(disk, drv.Cfg{SegSize: seg})
	if err != nil {
		return nil
	}
	l := model.NewLog()
	next := []uint64{1, 1, 100}[rng.Intn(3)]
	for i := 0; i < 6+rng.Intn(14); i++ {
		if rng.Intn(8) == 0 && l.Last > l.First+2 {
			if rng.Intn(2) == 0 {
				drv.Apply(w, gen.Op{Kind: "delete", Min: l.First, Max: l.First})
				l.DeleteRange(l.First, l.First)
			} else {
				drv.Apply(w, gen.Op{Kind: "delete", Min: l.Last, Max: l.Last})
				l.DeleteRange(l.Last, l.Last)
				next = l.Last + 1
			}
			continue
		}
		var logs []*raft.Log
		for k := 0; k < 1+rng.Intn(3); k++ {
			logs = append(logs, gen.Entry(rng, next, "c", 8+rng.Intn(90)))
			next++
		}
		if r := drv.Apply(w, gen.Op{Kind: "append", Logs: logs}); r.Err != nil {
			return nil
		}
		l.Append(logs, i, true)
	}
	drv.CloseWAL(w)
	b := &c11Base{snap: disk.Snapshot(), seg: seg, l: l, files: disk.List(), meta: disk.MetaSnapshot().State}
	for _, f := range b.files {
		b.bytes += len(disk.FileBytes(f))
	}
	return b
}

// frameOffsets lists the offsets of frame headers in a segment file image.
func frameOffsets(b []byte) []int {
	var out []int
	off := 32
	for off+8 <= len(b) {
		typ := b[off]
		ln := int(binary.LittleEndian.Uint32(b[off+4:]))
		out = append(out, off)
		switch typ {
		case 1, 2:
			off += 8 + ((ln + 7) &^ 7)
		case 3:
			off += 8
		default:
			return out
		}
		if len(out) > 4096 {
			break
		}
	}
	return out
}

var c11Operators = []string{"bitflip", "byteset", "splice", "truncate", "lenfield", "typebyte", "zerorun", "indexblock", "garbage", "headerswap", "extend", "payloadlen"}

// c11MutateFile damages one file of disk; returns (operator target description).
func c11MutateFile(rng *rand.Rand, disk *simfs.Disk, base *c11Base, op string) (string, bool) {
	if len(base.files) == 0 {
		return "", false
	}
	name := base.files[rng.Intn(len(base.files))]
	isTail := name == segment.FileName(base.meta.Segments[len(base.meta.Segments)-1])
	target := "sealed"
	if isTail {
		target = "tail"
	}
	b := disk.FileBytes(name)
	if len(b) < 40 {
		return "", false
	}
	offs := frameOffsets(b)
	pick := func() int {
		if len(offs) > 0 && rng.Intn(3) > 0 {
			return offs[rng.Intn(len(offs))] + rng.Intn(8)
		}
		if rng.Intn(4) == 0 {
			return rng.Intn(32)
		}
		return rng.Intn(len(b))
	}
	switch op {
	case "bitflip":
		for n := 1 + rng.Intn(3); n > 0; n-- {
			b[pick()] ^= 1 << uint(rng.Intn(8))
		}
	case "byteset":
		b[pick()] = byte(rng.Intn(256))
	case "splice":
		other := disk.FileBytes(base.files[rng.Intn(len(base.files))])
		if len(other) < 16 {
			return "", false
		}
		n := 8 * (1 + rng.Intn(16))
		so := rng.Intn(len(other))
		do := pick() &^ 7
		copy(b[do:], other[so:min(len(other), so+n)])
	case "truncate":
		cut := 0
		switch rng.Intn(5) {
		case 0:
			cut = rng.Intn(33)
		case 1:
			cut = 0
		default:
			if len(offs) > 0 {
				cut = offs[rng.Intn(len(offs))] + 8*rng.Intn(3)
			} else {
				cut = rng.Intn(len(b))
			}
		}
		if cut > len(b) {
			cut = len(b)
		}
		b = b[:cut]
	case "lenfield":
		if len(offs) == 0 {
			return "", false
		}
		o := offs[rng.Intn(len(offs))]
		v := []uint32{0, 1, uint32(len(b) - 1), uint32(len(b)), 1 << 31, 0xffffffff, 64*1024*1024 + 1, 64 * 1024 * 1024, 7, 9}[rng.Intn(10)]
		binary.LittleEndian.PutUint32(b[o+4:], v)
	case "typebyte":
		if len(offs) == 0 {
			return "", false
		}
		b[offs[rng.Intn(len(offs))]] = []byte{0, 1, 2, 3, 4, 13, 255}[rng.Intn(7)]
	case "zerorun":
		o := pick() &^ 7
		n := 8 * (1 + rng.Intn(32))
		for i := o; i < o+n && i < len(b); i++ {
			b[i] = 0
		}
	case "indexblock":
		// damage the offsets of a sealed segment's index
		for _, s := range base.meta.Segments {
			if segment.FileName(s) == name && s.IndexStart > 0 && int(s.IndexStart)+4 <= len(b) {
				k := int(s.IndexStart) + 4*rng.Intn(int(s.MaxIndex-s.BaseIndex+1))
				if k+4 <= len(b) {
					binary.LittleEndian.PutUint32(b[k:], []uint32{0, 8, 13, uint32(len(b)), uint32(len(b) - 4), 0xffffffff, uint32(rng.Intn(len(b)))}[rng.Intn(7)])
				}
			}
		}
	case "garbage":
		rng.Read(b[rng.Intn(len(b)):])
		if rng.Intn(3) == 0 {
			rng.Read(b)
		}
	case "headerswap":
		other := disk.FileBytes(base.files[rng.Intn(len(base.files))])
		if len(other) >= 32 {
			copy(b[:32], other[:32])
		}
	case "payloadlen":
		// the codec's own length prefixes inside an entry frame's payload (Data, then Extensions):
		// replaced by a uvarint that is huge, negative when cast to int, or just beyond the payload
		var entries []int
		for _, o := range offs {
			if b[o] == 1 {
				entries = append(entries, o)
			}
		}
		if len(entries) == 0 {
			return "", false
		}
		o := entries[rng.Intn(len(entries))]
		ln := int(binary.LittleEndian.Uint32(b[o+4:]))
		pl := b[o+8 : min(len(b), o+8+ln)]
		p := 0
		for k := 0; k < 3 && p < len(pl); k++ {
			_, m := binary.Uvarint(pl[p:])
			if m <= 0 {
				return "", false
			}
			p += m
		}
		if rng.Intn(2) == 0 && p < len(pl) {
			// move on to the Extensions prefix
			dl, m := binary.Uvarint(pl[p:])
			if m > 0 && dl < uint64(len(pl)) && p+m+int(dl) < len(pl) {
				p += m + int(dl)
			}
		}
		vals := []uint64{1 << 63, ^uint64(0), 1<<63 + 1, 1<<63 - 1, 1 << 62, 1 << 32, 1 << 31, 1<<31 - 1, uint64(len(pl)), uint64(len(pl) + 1), uint64(len(pl) - p)}
		var enc [binary.MaxVarintLen64]byte
		m := binary.PutUvarint(enc[:], vals[rng.Intn(len(vals))])
		if p < 0 || p >= len(pl) {
			return "", false
		}
		copy(pl[p:], enc[:m])
	case "extend":
		extra := make([]byte, 8*(1+rng.Intn(64)))
		if rng.Intn(2) == 0 {
			rng.Read(extra)
		}
		b = append(b, extra...)
	}
	disk.SetFileBytes(name, b)
	return target, true
}

var c11MetaEdits = []string{"dup-segment", "unsealed-middle", "base-zero", "indexstart-beyond", "min-gt-max", "codec", "nextid-low", "drop-sealed", "maxindex-off", "swap-order", "sizelimit-zero"}

func c11MutateMeta(rng *rand.Rand, disk *simfs.Disk, base *c11Base, edit string) bool {
	st := types.PersistentState{NextSegmentID: base.meta.NextSegmentID, Segments: append([]types.SegmentInfo(nil), base.meta.Segments...)}
	n := len(st.Segments)
	if n == 0 {
		return false
	}
	i := rng.Intn(n)
	switch edit {
	case "dup-segment":
		st.Segments = append(st.Segments[:i+1], st.Segments[i:]...)
	case "unsealed-middle":
		if n < 2 {
			return false
		}
		st.Segments[rng.Intn(n-1)].SealTime = time.Time{}
	case "base-zero":
		st.Segments[i].BaseIndex = 0
	case "indexstart-beyond":
		st.Segments[i].IndexStart = uint64(1<<20 + rng.Intn(1<<30))
	case "min-gt-max":
		st.Segments[i].MinIndex = st.Segments[i].MaxIndex + 1 + uint64(rng.Intn(5))
	case "codec":
		st.Segments[i].Codec = 7
	case "nextid-low":
		st.NextSegmentID = 0
	case "drop-sealed":
		if n < 2 {
			return false
		}
		j := rng.Intn(n - 1)
		st.Segments = append(st.Segments[:j], st.Segments[j+1:]...)
	case "maxindex-off":
		st.Segments[i].MaxIndex += uint64(1 + rng.Intn(1000))
	case "swap-order":
		if n < 2 {
			return false
		}
		st.Segments[0], st.Segments[n-1] = st.Segments[n-1], st.Segments[0]
	case "sizelimit-zero":
		st.Segments[i].SizeLimit = 0
	}
	disk.SetMeta(st)
	return true
}

type c11Outcome struct {
	class    string // ok | error | panic | budget | alloc | hang
	err      error
	panicVal any
	stack    string
	calls    int
	alloc    uint64
	entries  int
	// handles still open right after a failed Open (files, meta stores)
	leakF, leakM int
}

// c11Exercise opens the (damaged) directory and, if that works, reads
// everything, then runs the dump utilities. Single-threaded so that the
// allocation delta is attributable.
func c11Exercise(disk *simfs.Disk, base *c11Base) (out c11Outcome) {
	limit := 6*(base.bytes/8) + 200*len(base.files) + 2000
	bh := &budgetHook{limit: limit}
	disk.SetHook(bh)
	defer disk.SetHook(nil)
	var ms0, ms1 runtime.MemStats
	runtime.ReadMemStats(&ms0)
	done := make(chan struct{})
	go func() {
		defer close(done)
		defer func() {
			if r := recover(); r != nil {
				out.class = "panic"
				out.panicVal = r
				buf := make([]byte, 6000)
				out.stack = string(buf[:runtime.Stack(buf, false)])
			}
		}()
		w, err := drv.OpenSim(disk, drv.Cfg{SegSize: base.seg})
		if err != nil {
			out.class, out.err = "error", err
			out.leakF, out.leakM = disk.OpenHandles()
		} else {
			out.class = "ok"
			f, _ := w.FirstIndex()
			la, _ := w.LastIndex()
			if la >= f && la-f < 100000 && la > 0 {
				for i := f; i <= la; i++ {
					var lg raft.Log
					if err := w.GetLog(i, &lg); err == nil {
						out.entries++
					}
				}
			}
			drv.CloseWAL(w)
		}
		// dump utilities straight on the files
		fl := segment.NewFiler("sim", disk)
		fl.DumpLogs(0, 0, func(info types.SegmentInfo, e types.LogEntry) (bool, error) {
			var lg raft.Log
			(&wal.BinaryCodec{}).Decode(e.Data, &lg)
			return true, nil
		})
	}()
	select {
	case <-done:
	case <-time.After(30 * time.Second):
		out.class = "hang"
		buf := make([]byte, 1<<18)
		out.stack = string(buf[:runtime.Stack(buf, true)])
		return out
	}
	runtime.ReadMemStats(&ms1)
	out.calls = bh.calls
	out.alloc = ms1.TotalAlloc - ms0.TotalAlloc
	if bh.exceeded && out.class != "panic" {
		out.class = "budget"
	}
	return out
}

func runC11(c *evid.Ctx) {
	c.Rule("valid directories (generated workloads, several segments) damaged by one of 11 file mutation operators (bit flips, byte sets, splices between files, truncation at structure boundaries, length-field edits incl. 2^31/2^32-1/64MiB+1, type-byte edits, zero runs, index-block edits, garbage, header swaps, extension) or 11 metadata edits, then Open + GetLog of everything + DumpLogs/DumpSegment + Decode under: panic recovery, an I/O step budget enforced by the VFS (6*bytes/8 + 200*files + 2000 calls; exceeding it is the logical form of 'loops forever'), and an allocation bound (16*directory bytes + 2*MaxEntrySize + 8MiB per case); directed cases: sealed segment missing / shorter than its header / carrying another segment's header must make Open fail; after every failed Open no VFS handle or meta store of it may remain open, and on a real directory a second Open must return; Decode of structurally invalid encodings must return an error; non-trivial = distinct (operator, target, outcome) triples",
		"cases", "case_classes")
	c.Assume("arbitrary corruption only has to yield success or an error; silent shortening is asserted only for the three sealed-segment cases the property names", "allocation measured as TotalAlloc delta of a single-threaded run")
	n := 30000
	nBases := 40
	if !quick(c) {
		n = 400000
		nBases = 400
	}
	rng := rand.New(rand.NewSource(c.Seed))
	var bases []*c11Base
	for len(bases) < nBases {
		if b := c11Build(rng); b != nil && len(b.meta.Segments) >= 2 {
			bases = append(bases, b)
		}
	}
	c.Sample(map[string]any{"base_directory": map[string]any{"seg_size": bases[0].seg, "files": bases[0].files, "first": bases[0].l.First, "last": bases[0].l.Last}})
	var maxRatio float64
	var maxAlloc uint64
	for i := 0; i < n; i++ {
		base := bases[rng.Intn(len(bases))]
		disk := base.snap.Image(simfs.Variant{Kill: true})
		var opName, target string
		if rng.Intn(5) == 0 {
			opName = "meta:" + c11MetaEdits[rng.Intn(len(c11MetaEdits))]
			if !c11MutateMeta(rng, disk, base, strings.TrimPrefix(opName, "meta:")) {
				continue
			}
			target = "metadata"
		} else {
			opName = c11Operators[rng.Intn(len(c11Operators))]
			var ok bool
			if target, ok = c11MutateFile(rng, disk, base, opName); !ok {
				continue
			}
			if rng.Intn(6) == 0 { // a second mutation
				c11MutateFile(rng, disk, base, c11Operators[rng.Intn(len(c11Operators))])
			}
		}
		out := c11Exercise(disk, base)
		c.Count("cases", 1)
		c.Count("outcome_"+out.class, 1)
		c.Distinct("case_classes", opName+"|"+target+"|"+out.class)
		replay := map[string]any{"seed": c.Seed, "case_number": i, "operator": opName, "target": target, "seg_size": base.seg}
		if r := float64(out.calls) / float64(base.bytes/8+len(base.files)); r > maxRatio {
			maxRatio = r
		}
		if out.alloc > maxAlloc {
			maxAlloc = out.alloc
		}
		switch out.class {
		case "panic":
			c.Violation("C11:panic:"+opName+":"+panicSite(out.stack), fmt.Sprintf("panic on a directory damaged by %s (%s): %v", opName, target, out.panicVal), map[string]any{"case": replay, "stack": out.stack})
		case "hang":
			c.Violation("C11:hang:"+opName, fmt.Sprintf("Open/GetLog/Dump did not return within 30s on a directory damaged by %s (%s)", opName, target), map[string]any{"case": replay, "stack": out.stack[:min(len(out.stack), 4000)]})
		case "budget":
			c.Violation("C11:io-budget:"+opName, fmt.Sprintf("more than the budgeted VFS calls (%d) on a %d-byte directory damaged by %s (%s): the logical form of an endless loop", out.calls, base.bytes, opName, target), replay)
		}
		if bound := uint64(16*base.bytes) + 2*64*1024*1024 + 8<<20; out.alloc > bound {
			c.Violation("C11:allocation:"+opName, fmt.Sprintf("%d bytes allocated while handling a %d-byte directory damaged by %s (%s), bound %d", out.alloc, base.bytes, opName, target, bound), replay)
		}
		// a failed Open must leave nothing open
		if out.class == "error" {
			c.Count("failed_opens", 1)
			if f, m := out.leakF, out.leakM; f != 0 || m != 0 {
				c.Violation("C11:failed-open-leaks", fmt.Sprintf("after Open failed (%v) %d file handles and %d meta stores are still open", out.err, f, m), replay)
			}
		}
		if i < 2 {
			c.Sample(map[string]any{"operator": opName, "target": target, "outcome": out.class, "vfs_calls": out.calls, "allocated": out.alloc})
		}
		// hangs and multi-GiB allocations cost tens of seconds each: once the run has seen many
		// occurrences the verdict is settled, the remaining cases would only take hours
		if c.ViolationOccurrences() > 60 {
			c.Count("cases_skipped_after_many_violations", int64(n-i-1))
			break
		}
	}
	c.Extra("max_vfs_calls_per_8_bytes", maxRatio)
	c.Extra("max_allocated_bytes_in_a_case", maxAlloc)
	c11Sealed(c, rng, bases)
	c11UnderOpen(c, rng, bases)
	c11Decode(c, rng)
	c11RealFailedOpen(c, rng)
}

// c11UnderOpen: a segment file is cut short, in the middle of an entry, underneath a WAL
// that is open and has read everything once (pooled read buffers are warm). Every GetLog
// must then fail or succeed - and what it returns with a nil error must consist of bytes
// that are in the file: a returned entry whose encoding occurs nowhere in the damaged
// directory was made up from something else (stale buffer contents).
func c11UnderOpen(c *evid.Ctx, rng *rand.Rand, bases []*c11Base) {
	codec := &wal.BinaryCodec{}
	for bi, base := range bases {
		if bi >= 40 && quick(c) {
			break
		}
		disk := base.snap.Image(simfs.Variant{Kill: true})
		w, err := drv.OpenSim(disk, drv.Cfg{SegSize: base.seg})
		if err != nil {
			continue
		}
		first, _ := w.FirstIndex()
		last, _ := w.LastIndex()
		for i := first; i <= last && last > 0; i++ {
			var lg raft.Log
			w.GetLog(i, &lg)
		}
		// cut one file inside an entry frame's payload
		name := base.files[rng.Intn(len(base.files))]
		b := disk.FileBytes(name)
		offs := frameOffsets(b)
		if len(offs) < 2 {
			drv.CloseWAL(w)
			continue
		}
		o := offs[rng.Intn(len(offs))]
		cut := o + 8 + 1 + rng.Intn(24)
		if cut >= len(b) {
			drv.CloseWAL(w)
			continue
		}
		disk.TruncateInPlace(name, cut)
		var all [][]byte
		for _, n := range disk.List() {
			all = append(all, disk.FileBytes(n))
		}
		func() {
			defer func() {
				if r := recover(); r != nil {
					buf := make([]byte, 4000)
					c.Violation("C11:panic:truncated-under-open-wal:"+panicSite(string(buf[:runtime.Stack(buf, false)])), fmt.Sprintf("GetLog panicked after %s was cut to %d bytes under the open WAL: %v", name, cut, r), map[string]any{"file": name, "cut": cut})
				}
			}()
			for i := first; i <= last && last > 0; i++ {
				var lg raft.Log
				if err := w.GetLog(i, &lg); err != nil {
					c.Count("reads_failing_after_truncation_under_open_wal", 1)
					continue
				}
				var enc bytes.Buffer
				codec.Encode(&lg, &enc)
				found := false
				for _, fb := range all {
					if bytes.Contains(fb, enc.Bytes()) {
						found = true
						break
					}
				}
				c.Count("reads_succeeding_after_truncation_under_open_wal", 1)
				if !found {
					c.Violation("C11:returned-bytes-not-in-file", fmt.Sprintf("after %s was cut to %d bytes (inside the entry frame at %d) under the open WAL, GetLog(%d) returned nil error and an entry whose encoding (%d bytes) occurs in no file of the directory", name, cut, o, i, enc.Len()), map[string]any{"file": name, "cut": cut, "index": i})
					return
				}
			}
		}()
		c.Count("cases", 1)
		c.Distinct("case_classes", "truncated-under-open-wal")
		drv.CloseWAL(w)
	}
	// the same with entries of identical shape in one tail segment, read in order: whatever a
	// pooled buffer still holds from the previous read lines up field by field with the
	// entry that was cut, so bytes taken from it would decode cleanly
	for rep := 0; rep < 6; rep++ {
		disk := simfs.New(simfs.Strict)
		w, err := drv.OpenSim(disk, drv.Cfg{SegSize: 1 << 16})
		if err != nil {
			return
		}
		var logs []*raft.Log
		for i := uint64(1); i <= 12; i++ {
			logs = append(logs, &raft.Log{Index: i, Term: 3, Type: raft.LogCommand, Data: bytes.Repeat([]byte{byte('a' + i)}, 200), AppendedAt: time.Unix(1700000000+int64(i), 0).UTC()})
		}
		if err := w.StoreLogs(logs); err != nil {
			drv.CloseWAL(w)
			return
		}
		names := disk.List()
		b := disk.FileBytes(names[0])
		offs := frameOffsets(b)
		k := 3 + rng.Intn(7)
		if len(offs) <= k {
			drv.CloseWAL(w)
			continue
		}
		cut := offs[k] + 8 + 20 + rng.Intn(150)
		disk.TruncateInPlace(names[0], cut)
		fb := disk.FileBytes(names[0])
		for i := uint64(1); i <= 12; i++ {
			var lg raft.Log
			err := func() (err error) {
				defer func() {
					if r := recover(); r != nil {
						err = fmt.Errorf("panic: %v", r)
						c.Violation("C11:panic:truncated-under-open-wal:uniform", fmt.Sprintf("GetLog(%d) panicked: %v", i, r), nil)
					}
				}()
				return w.GetLog(i, &lg)
			}()
			if err != nil {
				c.Count("reads_failing_after_truncation_under_open_wal", 1)
				continue
			}
			c.Count("reads_succeeding_after_truncation_under_open_wal", 1)
			var enc bytes.Buffer
			codec.Encode(&lg, &enc)
			if !bytes.Contains(fb, enc.Bytes()) {
				c.Violation("C11:returned-bytes-not-in-file", fmt.Sprintf("after the tail file was cut to %d bytes (inside an entry frame) under the open WAL, GetLog(%d) returned nil error and an entry whose encoding (%d bytes) does not occur in the file", cut, i, enc.Len()), map[string]any{"cut": cut, "index": i})
				break
			}
		}
		c.Count("cases", 1)
		drv.CloseWAL(w)
	}
}

func panicSite(stack string) string {
	for _, line := range strings.Split(stack, "\n") {
		if strings.Contains(line, "github.com/hashicorp/raft-wal") && strings.Contains(line, "(") {
			s := strings.TrimSpace(line)
			if i := strings.IndexByte(s, '('); i > 0 {
				s = s[:i]
			}
			return filepath.Base(s)
		}
	}
	return "unknown"
}

// c11Sealed: the three named sealed-segment cases must make Open fail.
func c11Sealed(c *evid.Ctx, rng *rand.Rand, bases []*c11Base) {
	for _, base := range bases {
		var sealed []types.SegmentInfo
		for _, s := range base.meta.Segments {
			if !s.SealTime.IsZero() {
				sealed = append(sealed, s)
			}
		}
		if len(sealed) == 0 {
			continue
		}
		for _, kind := range []string{"missing", "short", "foreign-header", "empty-file"} {
			s := sealed[rng.Intn(len(sealed))]
			name := segment.FileName(s)
			disk := base.snap.Image(simfs.Variant{Kill: true})
			switch kind {
			case "missing":
				disk.RemoveFile(name)
			case "short":
				b := disk.FileBytes(name)
				disk.SetFileBytes(name, b[:rng.Intn(32)])
			case "empty-file":
				disk.SetFileBytes(name, nil)
			case "foreign-header":
				var other types.SegmentInfo
				found := false
				for _, o := range base.meta.Segments {
					if o.ID != s.ID {
						other, found = o, true
					}
				}
				if !found {
					continue
				}
				b := disk.FileBytes(name)
				ob := disk.FileBytes(segment.FileName(other))
				if len(ob) < 32 || len(b) < 32 {
					continue
				}
				if bytes.Equal(ob[:32], make([]byte, 32)) {
					continue // the other file has no committed header yet
				}
				copy(b[:32], ob[:32])
				disk.SetFileBytes(name, b)
			}
			c.Count("cases", 1)
			c.Count("directed_sealed_cases", 1)
			w, err := drv.OpenSim(disk, drv.Cfg{SegSize: base.seg})
			c.Distinct("case_classes", "sealed-"+kind+"|"+fmt.Sprint(err != nil))
			replay := map[string]any{"kind": kind, "segment": name, "seg_size": base.seg}
			if err == nil {
				la, _ := w.LastIndex()
				f, _ := w.FirstIndex()
				drv.CloseWAL(w)
				c.Violation("C11:sealed-"+kind+"-accepted", fmt.Sprintf("sealed segment %s listed in metadata is %s, yet Open succeeded (First=%d Last=%d; the undamaged log is [%d,%d])", name, kind, f, la, base.l.First, base.l.Last), replay)
				continue
			}
			if f, m := disk.OpenHandles(); f != 0 || m != 0 {
				c.Violation("C11:failed-open-leaks", fmt.Sprintf("after Open failed on a %s sealed segment %d file handles and %d meta stores are still open", kind, f, m), replay)
			}
		}
	}
}

// c11Decode: structurally invalid encodings must be rejected, nothing may panic.
func c11Decode(c *evid.Ctx, rng *rand.Rand) {
	codec := &wal.BinaryCodec{}
	n := 3000
	if !quick(c) {
		n = 300000
	}
	try := func(b []byte, class string, mustErr bool) {
		var l raft.Log
		var err error
		func() {
			defer func() {
				if r := recover(); r != nil {
					buf := make([]byte, 3000)
					c.Violation("C11:decode-panic:"+class, fmt.Sprintf("Decode panicked on %s input: %v", class, r), map[string]any{"input_hex": fmt.Sprintf("%x", b[:min(len(b), 64)]), "stack": string(buf[:runtime.Stack(buf, false)])})
					err = errors.New("panic")
				}
			}()
			err = codec.Decode(b, &l)
		}()
		c.Count("cases", 1)
		c.Count("decode_cases", 1)
		c.Distinct("case_classes", "decode|"+class+"|"+fmt.Sprint(err != nil))
		if mustErr && err == nil {
			c.Violation("C11:decode-accepts:"+class, fmt.Sprintf("Decode returned nil for a structurally invalid encoding (%s)", class), map[string]any{"input_hex": fmt.Sprintf("%x", b[:min(len(b), 64)])})
		}
	}
	for i := 0; i < n; i++ {
		lg := gen.Entry(rng, uint64(rng.Int63()), "d", rng.Intn(60))
		var buf bytes.Buffer
		codec.Encode(lg, &buf)
		enc := buf.Bytes()
		// every strict prefix is structurally invalid
		cut := rng.Intn(len(enc))
		try(append([]byte{}, enc[:cut]...), "truncated", true)
		// over-long varint in front
		over := append(bytes.Repeat([]byte{0xff}, 10+rng.Intn(3)), enc...)
		try(over, "overlong-varint", true)
		// length prefix beyond the buffer: set the Data length varint to a huge value
		huge := append([]byte{}, enc...)
		// index, term, type varints first
		p := 0
		for k := 0; k < 3; k++ {
			_, m := binary.Uvarint(huge[p:])
			p += m
		}
		hb := append(append([]byte{}, huge[:p]...), 0xff, 0xff, 0xff, 0xff, 0x0f)
		hb = append(hb, huge[p+1:]...)
		try(hb, "length-beyond-buffer", true)
		// the same with the values that overflow a signed length or a 32-bit one, for Data and for Extensions
		for vi, v := range []uint64{1 << 63, ^uint64(0), 1<<63 + 1, 1<<63 - 1, 1 << 62, 1 << 32, 1 << 31, uint64(len(enc)), uint64(len(enc) + 1)} {
			var ve [binary.MaxVarintLen64]byte
			m := binary.PutUvarint(ve[:], v)
			hd := append(append(append([]byte{}, huge[:p]...), ve[:m]...), huge[p+1:]...)
			try(hd, fmt.Sprintf("data-length-prefix-%d", vi), true)
			// Extensions prefix: directly after the Data bytes
			dl, dm := binary.Uvarint(huge[p:])
			q := p + dm + int(dl)
			if dm > 0 && q < len(huge) {
				he := append(append(append([]byte{}, huge[:q]...), ve[:m]...), huge[q+1:]...)
				try(he, fmt.Sprintf("ext-length-prefix-%d", vi), true)
			}
		}
		// trailing garbage makes the time field the wrong size
		try(append(append([]byte{}, enc...), 1, 2, 3), "trailing-bytes", true)
		// random damage: only must not panic
		dm := append([]byte{}, enc...)
		for k := 0; k < 1+rng.Intn(4); k++ {
			dm[rng.Intn(len(dm))] = byte(rng.Intn(256))
		}
		try(dm, "random-damage", false)
		g := make([]byte, rng.Intn(40))
		rng.Read(g)
		try(g, "garbage", false)
	}
}

// c11RealFailedOpen: production fs + BoltDB; after a failed Open a second Open
// of the same directory in this process must return instead of blocking.
func c11RealFailedOpen(c *evid.Ctx, rng *rand.Rand) {
	rounds := 5
	if !quick(c) {
		rounds = 30
	}
	for r := 0; r < rounds; r++ {
		dir, err := os.MkdirTemp("", "verif-c11-")
		if err != nil {
			c.Inconclusive("cannot create temp dir: %v", err)
			return
		}
		func() {
			defer os.RemoveAll(dir)
			w, err := drv.OpenDir(dir, drv.Cfg{SegSize: 512})
			if err != nil {
				c.Inconclusive("cannot open real dir: %v", err)
				return
			}
			for i := uint64(1); i <= 20; i++ {
				w.StoreLogs([]*raft.Log{gen.Entry(rng, i, "r", 60)})
			}
			drv.CloseWAL(w)
			// damage a sealed segment so that Open fails after it has opened things
			names, _ := filepath.Glob(filepath.Join(dir, "*.wal"))
			sort.Strings(names)
			if len(names) < 3 {
				return
			}
			victim := names[1+rng.Intn(len(names)-2)]
			kind := []string{"truncate", "remove", "garbage-header", "garbage-meta-record", "truncated-meta-record"}[r%5]
			switch kind {
			case "garbage-meta-record", "truncated-meta-record":
				// damage the stored metadata record itself, through bbolt
				db, err := bbolt.Open(filepath.Join(dir, "wal-meta.db"), 0o600, &bbolt.Options{Timeout: 5 * time.Second})
				if err != nil {
					c.Inconclusive("cannot open wal-meta.db to damage it: %v", err)
					return
				}
				db.Update(func(tx *bbolt.Tx) error {
					b := tx.Bucket([]byte("wal-meta"))
					raw := append([]byte{}, b.Get([]byte("m"))...)
					if kind == "garbage-meta-record" {
						for i := 0; i < 6 && len(raw) > 0; i++ {
							raw[rng.Intn(len(raw))] = byte(rng.Intn(256))
						}
						raw = append([]byte("{{"), raw...)
					} else if len(raw) > 10 {
						raw = raw[:len(raw)/2]
					}
					return b.Put([]byte("m"), raw)
				})
				db.Close()
			case "truncate":
				os.Truncate(victim, 10)
			case "remove":
				os.Remove(victim)
			default:
				f, _ := os.OpenFile(victim, os.O_RDWR, 0)
				f.WriteAt(bytes.Repeat([]byte{0xab}, 32), 0)
				f.Close()
			}
			first := make(chan error, 1)
			go func() {
				_, e := drv.OpenDir(dir, drv.Cfg{SegSize: 512})
				first <- e
			}()
			select {
			case err = <-first:
			case <-time.After(60 * time.Second):
				buf := make([]byte, 1<<17)
				st := string(buf[:runtime.Stack(buf, true)])
				if strings.Contains(st, "raft-wal.Open(") {
					c.Violation("C11:hang:real-open:"+kind, "Open of a real directory with a damaged sealed segment / metadata record did not return (blocked inside raft-wal.Open)", map[string]any{"kind": kind, "stack": st[:min(len(st), 4000)]})
				} else {
					c.Inconclusive("Open did not return within the watchdog but is not inside raft-wal.Open")
				}
				return
			}
			c.Count("cases", 1)
			c.Count("real_failed_open_cases", 1)
			c.Distinct("case_classes", "real-failed-open|"+kind)
			if err == nil {
				c.Violation("C11:damaged-"+kind+"-accepted-realfs", "Open succeeded on a real directory with a damaged sealed segment / metadata record", map[string]any{"kind": kind})
				return
			}
			done := make(chan error, 1)
			go func() {
				w2, err2 := drv.OpenDir(dir, drv.Cfg{SegSize: 512})
				if err2 == nil {
					drv.CloseWAL(w2)
				}
				done <- err2
			}()
			select {
			case <-done:
			case <-time.After(20 * time.Second):
				buf := make([]byte, 1<<16)
				st := string(buf[:runtime.Stack(buf, true)])
				if strings.Contains(st, "flock") || strings.Contains(st, "bbolt.Open") {
					c.Violation("C11:second-open-blocks", "after a failed Open a second Open of the same directory in the same process blocks (the metadata DB is still locked)", map[string]any{"kind": kind, "stack": st[:min(len(st), 3000)]})
				} else {
					c.Inconclusive("second Open did not return within the watchdog")
				}
			}
		}()
	}
}
