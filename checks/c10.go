package checks

import (
	"bytes"
	"encoding/json"
	"errors"
	"fmt"
	"math/rand"
	"os"
	"runtime"
	"sync"

	"github.com/hashicorp/raft"
	wal "github.com/hashicorp/raft-wal"

	"verif/internal/drv"
	"verif/internal/evid"
	"verif/internal/gen"
	"verif/internal/hooks"
	"verif/internal/model"
	"verif/internal/simfs"
)

func init() {
	register("C10", &Check{Level: "fault_enumeration", Run: runC10})
}

var c10Trace bool

// c10Fault is one injection plan.
type c10Fault struct {
	Seq    int  `json:"call_seq"` // sequence number of the VFS/MetaStore call that fails
	After  bool `json:"after_effect"`
	Sticky bool `json:"sticky"`
	Seq2   int  `json:"second_call_seq,omitempty"` // optional second failing call (pairs)
	// Persist: the failing call kind keeps failing (before effect) for this many further API
	// calls (a disk that stays full / broken for a while), then recovers
	Persist int    `json:"persist_api_calls,omitempty"`
	Kind    string `json:"kind"`
}

// c10Hook injects the fault and records every call of the golden run.
type c10Hook struct {
	f           c10Fault
	calls       []simfs.Call // recorded (golden run only)
	record      bool
	fired       int
	stickyKind  simfs.Kind
	stickyOn    bool
	persistLeft int
	firedKind   string
	paused      bool // set while the harness itself observes the WAL
}

func (h *c10Hook) Pre(d *simfs.Disk, c simfs.Call) error {
	if h.paused {
		return nil
	}
	if h.record {
		h.calls = append(h.calls, c)
	}
	if h.f.Seq == 0 {
		return nil
	}
	if (c.Seq == h.f.Seq || c.Seq == h.f.Seq2) && !h.f.After {
		h.fired++
		h.firedKind = c.Kind.String()
		if h.f.Sticky || h.f.Persist > 0 {
			h.stickyOn, h.stickyKind = true, c.Kind
			h.persistLeft = h.f.Persist
		}
		return simfs.ErrInjected
	}
	if h.stickyOn && c.Kind == h.stickyKind {
		h.fired++
		return simfs.ErrInjected
	}
	return nil
}
func (h *c10Hook) Mid(d *simfs.Disk, c simfs.Call) {}
func (h *c10Hook) Post(d *simfs.Disk, c simfs.Call) error {
	if h.paused {
		return nil
	}
	if h.f.Seq != 0 && (c.Seq == h.f.Seq || c.Seq == h.f.Seq2) && h.f.After {
		h.fired++
		h.firedKind = c.Kind.String()
		return simfs.ErrInjected
	}
	return nil
}
func (h *c10Hook) endOfCall() {
	if h.persistLeft > 0 {
		h.persistLeft--
		return
	}
	h.stickyOn = false
}

// c10Event is one API call of a run, for candidate replay.
type c10Event struct {
	op     gen.Op
	failed bool
}

// c10Candidates replays the history with every subset of the failed calls
// applied and returns the legal states after a clean reopen.
func c10Candidates(events []c10Event) []*model.Log {
	var failedIdx []int
	for i, e := range events {
		if e.failed && (e.op.Kind == "append" || e.op.Kind == "delete") {
			failedIdx = append(failedIdx, i)
		}
	}
	if len(failedIdx) > 6 {
		failedIdx = failedIdx[len(failedIdx)-6:]
	}
	var out []*model.Log
	for mask := 0; mask < 1<<len(failedIdx); mask++ {
		applied := map[int]bool{}
		for b, i := range failedIdx {
			if mask&(1<<b) != 0 {
				applied[i] = true
			}
		}
		l := model.NewLog()
		valid := true
		for i, e := range events {
			if e.failed && !applied[i] {
				continue
			}
			switch e.op.Kind {
			case "append":
				if len(e.op.Logs) == 0 {
					continue
				}
				if !e.failed {
					// an acknowledged append replaces whatever a failed one left at and above its indexes
					first := e.op.Logs[0].Index
					if !l.Empty() && first <= l.Last {
						if first <= l.First {
							valid = false
						} else {
							l.DeleteRange(first, l.Last)
						}
					}
				}
				if l.CheckAppend(e.op.Logs) != nil {
					if !e.failed {
						valid = false
					}
					continue
				}
				l.Append(e.op.Logs, i, true)
			case "delete":
				if k := l.ClassifyDelete(e.op.Min, e.op.Max); k != model.DelMiddle {
					l.DeleteRange(e.op.Min, e.op.Max)
				}
			}
			if !valid {
				break
			}
		}
		if valid {
			out = append(out, l)
		}
	}
	return out
}

func c10NextOp(rng *rand.Rand, l *model.Log, seg int, n int) gen.Op {
	next := l.Last + 1
	if l.Empty() {
		next = []uint64{1, 1, 40}[rng.Intn(3)]
	}
	x := rng.Intn(100)
	switch {
	case x < 55 || l.Empty():
		k := 1 + rng.Intn(3)
		var logs []*raft.Log
		for i := 0; i < k; i++ {
			sz := 8 + rng.Intn(60)
			if rng.Intn(8) == 0 {
				sz = seg/2 + rng.Intn(seg/2)
			}
			logs = append(logs, gen.Entry(rng, next+uint64(i), fmt.Sprintf("f%d", n), sz))
		}
		return gen.Op{Kind: "append", Logs: logs}
	case x < 65:
		if l.Last > l.First {
			return gen.Op{Kind: "delete", Min: l.First, Max: l.First + uint64(rng.Intn(int(min(3, l.Last-l.First))))}
		}
		return gen.Op{Kind: "read", Min: l.First}
	case x < 75:
		if l.Last > l.First {
			return gen.Op{Kind: "delete", Min: l.Last - uint64(rng.Intn(int(min(3, l.Last-l.First)))), Max: l.Last}
		}
		return gen.Op{Kind: "read", Min: l.Last}
	case x < 78:
		return gen.Op{Kind: "delete", Min: l.First, Max: l.Last}
	case x < 86:
		return gen.Op{Kind: "reopen"}
	case x < 92:
		return gen.Op{Kind: "set", Key: []byte(fmt.Sprintf("k%d", rng.Intn(2))), Val: []byte(fmt.Sprintf("v%d", n))}
	default:
		return gen.Op{Kind: "read", Min: l.First + uint64(rng.Intn(int(l.Last-l.First+1)))}
	}
}

type c10Run struct {
	calls    []simfs.Call
	fired    int
	firedKnd string
	phase    string // API op kind during which the fault fired
}

// c10Execute runs workload `seed` with fault f (f.Seq==0: golden run).
func c10Execute(c *evid.Ctx, seed int64, seg int, nops int, f c10Fault) *c10Run {
	rng := rand.New(rand.NewSource(seed))
	disk := simfs.New(simfs.Strict)
	h := &c10Hook{f: f, record: f.Seq == 0}
	disk.SetHook(h)
	run := &c10Run{}
	replay := func(extra string) map[string]any {
		return map[string]any{"workload_seed": seed, "seg_size": seg, "ops": nops, "fault": f, "fault_kind": h.firedKind, "detail": extra}
	}
	var w *wal.WAL
	open := func() error {
		var err error
		w, err = drv.OpenSim(disk, drv.Cfg{SegSize: seg})
		return err
	}
	// openUntilFaultFree retries Open while a persistent fault may still be active (every
	// attempt counts as one API call for the fault's lifetime); it returns the error of an
	// attempt made with no fault armed at all, or nil
	openUntilFaultFree := func() error {
		var err error
		for i := 0; i < 12; i++ {
			active := h.stickyOn || h.persistLeft > 0
			before := h.fired
			err = open()
			h.endOfCall()
			if err == nil {
				return nil
			}
			if !active && h.fired == before {
				return err
			}
			if fh, mh := disk.OpenHandles(); fh != 0 || mh != 0 {
				c.Count("failed_open_left_handles_open", 1)
			}
		}
		return err
	}
	if err := open(); err != nil {
		if h.fired == 0 {
			c.Violation("C10:open-fresh", err.Error(), replay(""))
			return run
		}
		h.endOfCall()
		if fh, mh := disk.OpenHandles(); fh != 0 || mh != 0 {
			c.Count("signals_for_other_properties", 1)
		}
		if err := openUntilFaultFree(); err != nil {
			c.Violation("C10:open-after-failed-open", fmt.Sprintf("Open failed under an injected fault and then again without one: %v", err), replay(""))
			return run
		}
	}
	l := model.NewLog()
	st := model.NewStable()
	maybeStable := map[string][]string{}
	var events []c10Event
	var ever []uint64
	ackedAfterFault := 0
	refusals := 0
	firedBefore := 0
	observe := func(probes []uint64) *model.Obs {
		h.paused = true
		defer func() { h.paused = false }()
		return drv.Observe(w, probes)
	}
	// rebaseAfterReopen: calls that returned an error may turn out applied or not once
	// the directory is recovered; continue from whichever legal state is there
	rebaseAfterReopen := func(when string) bool {
		cands := c10Candidates(events)
		obs := observe(model.ProbeSet(ever, cands...))
		for _, cand := range cands {
			if cand.Diff(obs) == "" {
				l = cand
				events = c10Rebase(cand)
				return true
			}
		}
		c.Violation("C10:after-reopen:"+h.firedKind+c10Eff(f), fmt.Sprintf("after a fault in %s (%s) and a reopen (%s) the state matches none of %d legal states: %s", h.firedKind, c10Eff(f), when, len(cands), bestDiff(cands, obs)), replay(bestDiff(cands, obs)))
		return false
	}
	check := func(when string) bool {
		obs := observe(model.ProbeSet(ever, l))
		// in-process: acknowledged entries intact, failed appends invisible; a failed
		// DeleteRange may or may not be visible
		cands := []*model.Log{l}
		for i := len(events) - 1; i >= 0 && i >= len(events)-3; i-- {
			if e := events[i]; e.failed && e.op.Kind == "delete" {
				if k := l.ClassifyDelete(e.op.Min, e.op.Max); k != model.DelMiddle && k != model.DelNoop {
					l2 := l.Clone()
					l2.DeleteRange(e.op.Min, e.op.Max)
					cands = append(cands, l2)
				}
			}
		}
		best := ""
		for _, cand := range cands {
			d := cand.Diff(obs)
			if d == "" {
				return true
			}
			if best == "" || len(d) < len(best) {
				best = d
			}
		}
		c.Violation("C10:in-process:"+when+":"+h.firedKind+c10Eff(f), fmt.Sprintf("in-process state %s after a fault in %s (%s): %s", when, h.firedKind, c10Eff(f), best), replay(best))
		return false
	}
	var forced []string // after a failed call: one acknowledged append, then straight to a reopen
	for n := 0; n < nops; n++ {
		op := c10NextOp(rng, l, seg, n)
		if len(forced) > 0 {
			switch forced[0] {
			case "append":
				next := l.Last + 1
				if l.Empty() {
					next = 1
				}
				op = gen.Op{Kind: "append", Logs: []*raft.Log{gen.Entry(rng, next, fmt.Sprintf("f%d", n), 8+rng.Intn(60))}}
			case "reopen":
				op = gen.Op{Kind: "reopen"}
			}
			forced = forced[1:]
		}
		firedBefore = h.fired
		if c10Trace {
			fmt.Printf("op %d: %s (calls so far %d, model [%d,%d])\n", n, op, disk.Seq(), l.First, l.Last)
		}
		var err error
		switch op.Kind {
		case "reopen":
			drv.CloseWAL(w)
			h.endOfCall()
			if err = open(); err != nil {
				h.endOfCall()
				if h.fired == firedBefore {
					c.Violation("C10:reopen-failed", fmt.Sprintf("clean reopen failed with no fault injected in it: %v", err), replay(""))
					return run
				}
				if fh, mh := disk.OpenHandles(); fh != 0 || mh != 0 {
					c.Count("failed_open_left_handles_open", 1)
				}
				if err2 := openUntilFaultFree(); err2 != nil {
					c.Violation("C10:open-after-failed-open", fmt.Sprintf("Open failed under an injected fault (%v) and then again without one: %v", err, err2), replay(""))
					return run
				}
			}
		case "read":
			var lg raft.Log
			err = w.GetLog(op.Min, &lg)
			if err == nil {
				if e := l.Ents[op.Min]; e == nil || model.LogDiff(&lg, e.Log) != "" {
					c.Violation("C10:read-wrong", fmt.Sprintf("GetLog(%d) returned wrong content", op.Min), replay(""))
				}
			}
			err = nil
		case "set":
			err = w.Set(op.Key, op.Val)
			if err == nil {
				st.Set(op.Key, op.Val)
				delete(maybeStable, string(op.Key))
			} else {
				// a Set that returned an error may or may not have been applied
				maybeStable[string(op.Key)] = append(maybeStable[string(op.Key)], string(op.Val))
			}
		default:
			r := drv.Apply(w, op)
			err = r.Err
			if !r.Quiesced {
				c.Inconclusive("rotation did not finish within the watchdog")
				return run
			}
		}
		h.endOfCall()
		injectedNow := h.fired > firedBefore
		if c10Trace {
			fmt.Printf("   -> err=%v injected=%v\n", err, injectedNow)
		}
		if injectedNow && run.phase == "" {
			run.phase = op.Kind
		}
		if op.Kind == "append" || op.Kind == "delete" {
			wantErr := false
			if op.Kind == "append" {
				wantErr = l.CheckAppend(op.Logs) != nil
			} else {
				wantErr = l.ClassifyDelete(op.Min, op.Max) == model.DelMiddle
			}
			switch {
			case err == nil && !wantErr:
				if op.Kind == "append" {
					l.Append(op.Logs, n, true)
					for _, lg := range op.Logs {
						ever = append(ever, lg.Index)
					}
					if h.fired > 0 {
						ackedAfterFault++
					}
				} else {
					l.DeleteRange(op.Min, op.Max)
				}
				events = append(events, c10Event{op: op})
			case err != nil && !wantErr:
				events = append(events, c10Event{op: op, failed: true})
				if injectedNow && rng.Intn(5) < 3 {
					// the batch right after a failed call is the last thing before a recovery
					forced = []string{"append", "reopen"}
				}
				if op.Kind == "append" {
					for _, lg := range op.Logs {
						ever = append(ever, lg.Index)
					}
				}
				if !injectedNow {
					// refusal of further writes after an earlier fault is allowed; reopen and go on
					refusals++
					if h.fired == 0 {
						c.Violation("C10:error-without-fault:"+op.Kind, fmt.Sprintf("%s failed with no fault injected at all: %v", op, err), replay(""))
						return run
					}
					drv.CloseWAL(w)
					if err := openUntilFaultFree(); err != nil {
						c.Violation("C10:reopen-after-refusal", fmt.Sprintf("reopen after the WAL refused writes failed: %v", err), replay(""))
						return run
					}
					if !rebaseAfterReopen("after the WAL refused writes") {
						return run
					}
					continue
				}
			}
		}
		if op.Kind == "reopen" {
			if !rebaseAfterReopen("reopen op") {
				return run
			}
			continue
		}
		if !check(fmt.Sprintf("after-%s", op.Kind)) {
			return run
		}
	}
	// final clean reopen with no faults
	drv.CloseWAL(w)
	h.f = c10Fault{}
	h.stickyOn, h.persistLeft = false, 0
	if err := open(); err != nil {
		c.Violation("C10:final-reopen-failed:"+h.firedKind+c10Eff(f), fmt.Sprintf("clean reopen after a fault in %s (%s) failed: %v", h.firedKind, c10Eff(f), err), replay(""))
		return run
	}
	cands := c10Candidates(events)
	obs := observe(model.ProbeSet(ever, cands...))
	ok := false
	for _, cand := range cands {
		if cand.Diff(obs) == "" {
			ok = true
			break
		}
	}
	if !ok {
		c.Violation("C10:after-reopen:"+h.firedKind+c10Eff(f), fmt.Sprintf("after a fault in %s (%s) during %s, %d further acknowledged appends and a clean reopen, the state matches none of the %d legal states: %s", h.firedKind, c10Eff(f), run.phase, ackedAfterFault, len(cands), bestDiff(cands, obs)), replay(bestDiff(cands, obs)))
	}
	for k, v := range st.M {
		got, err := w.Get([]byte(k))
		legal := err == nil && string(got) == string(v)
		for _, mv := range maybeStable[k] {
			if err == nil && string(got) == mv {
				legal = true
			}
		}
		if !legal {
			c.Violation("C10:stable-lost", fmt.Sprintf("stable key %s = %q (%v) after reopen, acknowledged %q", k, got, err, v), replay(""))
		}
	}
	drv.CloseWAL(w)
	hooks.Forget(w)
	run.calls = h.calls
	run.fired = h.fired
	run.firedKnd = h.firedKind
	if f.Seq != 0 && h.fired > 0 {
		c.Count("faulted_runs", 1)
		if ackedAfterFault > 0 {
			c.Count("faulted_runs_followed_by_acked_append", 1)
		}
		if refusals > 0 {
			c.Count("runs_with_refused_writes_after_fault", 1)
		}
		c.Distinct("fault_classes", fmt.Sprintf("%s|during=%s|%s|sticky=%v|persistent=%v", h.firedKind, run.phase, c10Eff(f), f.Sticky, f.Persist > 0))
	}
	return run
}

func c10Rebase(l *model.Log) []c10Event {
	if l.Empty() {
		return nil
	}
	var logs []*raft.Log
	for i := l.First; i <= l.Last; i++ {
		logs = append(logs, l.Ents[i].Log)
	}
	return []c10Event{{op: gen.Op{Kind: "append", Logs: logs}}}
}

func bestDiff(cands []*model.Log, obs *model.Obs) string {
	best := ""
	for _, cand := range cands {
		d := cand.Diff(obs)
		if best == "" || len(d) < len(best) {
			best = d
		}
	}
	return best
}

func c10Eff(f c10Fault) string {
	if f.After {
		return "after-effect"
	}
	return "before-effect"
}

func runC10(c *evid.Ctx) {
	c.Rule("for each generated adaptive workload the golden run numbers every VFS/MetaStore call; the workload is then re-executed once per (call, before-effect | after-effect (the write/sync/create/delete/commit happened but an error is returned), once | sticky within the call | persistent over the next 1-4 API calls) with that call failing, continues with further successful operations, and ends with a clean reopen; oracle: in-process acknowledged entries intact and failed appends invisible after every step, after the reopen the state equals the model under some applied/not-applied assignment of the calls that returned errors; thorough adds pairs of failing calls; plus directed scripts of shrinking retries (two StoreLogs calls for the same indexes fail on Sync / WriteAt, a third, shorter one succeeds; payload sizes enumerated so that leftovers line up with frame boundaries) followed by a clean reopen, and of large batches (70 KiB - 3 MiB, as the first batch of a WAL, the first of a segment, or later; WriteAt / Sync failing before or after effect; retried unchanged; optional small follow-ups) followed by a clean reopen; non-trivial = distinct (call kind, API call it hit, effect, persistence) classes that reached the final reopen",
		"faulted_runs", "fault_classes")
	c.Assume("simmeta commits are atomic; an error from CommitState/SetStable 'after effect' means the commit is durable", "refusal of further writes after a fault is not counted against the property")
	if c.Replay != "" {
		var rf struct {
			Case struct {
				Seed  int64    `json:"workload_seed"`
				Seg   int      `json:"seg_size"`
				Ops   int      `json:"ops"`
				Fault c10Fault `json:"fault"`
			} `json:"case"`
		}
		b, err := os.ReadFile(c.Replay)
		if err != nil || json.Unmarshal(b, &rf) != nil || rf.Case.Ops == 0 {
			fmt.Println("HARNESS-ERROR cannot read C10 replay file")
			os.Exit(2)
		}
		c10Trace = true
		c10Execute(c, rf.Case.Seed, rf.Case.Seg, rf.Case.Ops, rf.Case.Fault)
		c.Count("faulted_runs", 1)
		c.Distinct("fault_classes", "replay-a")
		c.Distinct("fault_classes", "replay-b")
		c.Sample(rf.Case)
		return
	}
	nWl := 80
	stride := 1
	if !quick(c) {
		nWl = 1500
	}
	type job struct {
		seed int64
		seg  int
		nops int
		f    c10Fault
	}
	jobs := make(chan job, 256)
	var wg sync.WaitGroup
	for i := 0; i < runtime.NumCPU(); i++ {
		wg.Add(1)
		go func() {
			defer wg.Done()
			for j := range jobs {
				c10Execute(c, j.seed, j.seg, j.nops, j.f)
			}
		}()
	}
	rng := rand.New(rand.NewSource(c.Seed))
	for wl := 0; wl < nWl; wl++ {
		seed := c.Seed*1000003 + int64(wl)
		seg := []int{128, 200, 300, 1024}[rng.Intn(4)]
		nops := 14 + rng.Intn(14)
		golden := c10Execute(c, seed, seg, nops, c10Fault{})
		c.Count("workloads", 1)
		c.Count("golden_calls", int64(len(golden.calls)))
		if wl < 2 {
			c.Sample(map[string]any{"workload_seed": seed, "seg_size": seg, "ops": nops, "calls_in_golden_run": len(golden.calls)})
		}
		for i, call := range golden.calls {
			mut := call.Kind.Mutating()
			// reads, opens, lists and closes are sampled; every mutating call is faulted
			if !mut && quick(c) && i%4 != 0 {
				continue
			}
			if i%stride != 0 {
				continue
			}
			jobs <- job{seed, seg, nops, c10Fault{Seq: call.Seq, Kind: call.Kind.String()}}
			if mut {
				jobs <- job{seed, seg, nops, c10Fault{Seq: call.Seq, After: true, Kind: call.Kind.String()}}
				jobs <- job{seed, seg, nops, c10Fault{Seq: call.Seq, Sticky: true, Kind: call.Kind.String()}}
				if i%3 == 0 {
					jobs <- job{seed, seg, nops, c10Fault{Seq: call.Seq, Persist: 1 + i%4, Kind: call.Kind.String()}}
				}
			}
			if !quick(c) && mut && rng.Intn(6) == 0 {
				// pairs: a second failing call shortly after the first
				for d := 1; d <= 3; d++ {
					jobs <- job{seed, seg, nops, c10Fault{Seq: call.Seq, Seq2: call.Seq + d + rng.Intn(6), After: rng.Intn(2) == 0, Kind: call.Kind.String()}}
				}
			}
		}
	}
	close(jobs)
	wg.Wait()
	c10ShrinkingRetries(c)
	c10LargeBatches(c)
	_ = errors.Is
}

// ---- shrinking retries under a persistent fault ----

// c10NextN fails the next n calls of one kind on one file class, before or after effect.
type c10NextN struct {
	kind  simfs.Kind
	after bool
	n     int
}

func (h *c10NextN) Pre(d *simfs.Disk, cl simfs.Call) error {
	if h.n > 0 && !h.after && cl.Kind == h.kind {
		h.n--
		return simfs.ErrInjected
	}
	return nil
}
func (h *c10NextN) Mid(d *simfs.Disk, cl simfs.Call) {}
func (h *c10NextN) Post(d *simfs.Disk, cl simfs.Call) error {
	if h.n > 0 && h.after && cl.Kind == h.kind {
		h.n--
		return simfs.ErrInjected
	}
	return nil
}

// c10ShrinkingRetries: what raft does when its disk misbehaves for a while - the same
// indexes are submitted again and again, in batches that get shorter, until one succeeds.
// Two StoreLogs calls fail (the Sync, or the WriteAt, fails before or after its effect),
// the third one succeeds; entry payload sizes are enumerated over a set whose frame sizes
// differ by exactly one commit frame, so that leftovers of the failed batches line up with
// frame boundaries behind the successful one. After a clean reopen the log must be exactly
// the acknowledged entries.
func c10ShrinkingRetries(c *evid.Ctx) {
	sizes := []int{20, 28}
	if !quick(c) {
		sizes = []int{12, 20, 28, 36}
	}
	type fk struct {
		kind  simfs.Kind
		after bool
		name  string
	}
	faults := []fk{{simfs.KSync, false, "Sync-before"}, {simfs.KSync, true, "Sync-after"}, {simfs.KWriteAt, true, "WriteAt-after"}}
	var combos [][6]int
	var rec func(pre []int)
	rec = func(pre []int) {
		if len(pre) == 6 {
			var a [6]int
			copy(a[:], pre)
			combos = append(combos, a)
			return
		}
		for _, s := range sizes {
			rec(append(pre, s))
		}
	}
	rec(nil)
	for _, f := range faults {
		for _, cb := range combos {
			disk := simfs.New(simfs.Strict)
			h := &c10NextN{kind: f.kind, after: f.after}
			disk.SetHook(h)
			w, err := drv.OpenSim(disk, drv.Cfg{SegSize: 4096})
			if err != nil {
				c.Violation("C10:open", err.Error(), nil)
				return
			}
			l := model.NewLog()
			mk := func(first uint64, szs []int, tag string) []*raft.Log {
				var out []*raft.Log
				for i, s := range szs {
					out = append(out, &raft.Log{Index: first + uint64(i), Term: 1, Type: raft.LogCommand, Data: bytes.Repeat([]byte{byte('a' + len(tag)%20)}, s), Extensions: []byte(tag)})
				}
				return out
			}
			pre := mk(1, []int{24, 24, 24, 24}, "p")
			if err := w.StoreLogs(pre); err != nil {
				c.Violation("C10:append", err.Error(), nil)
			}
			l.Append(pre, 0, true)
			replay := map[string]any{"fault": f.name, "sizes": cb}
			h.n = 2
			e1 := w.StoreLogs(mk(5, cb[0:3], "a1"))
			e2 := w.StoreLogs(mk(5, cb[3:5], "a2x"))
			h.n = 0
			a3 := mk(5, cb[5:6], "a3yy")
			e3 := w.StoreLogs(a3)
			c.Count("shrinking_retry_scripts", 1)
			c.Count("faulted_runs", 1)
			c.Distinct("fault_classes", fmt.Sprintf("shrinking-retries|%s|errs=%v,%v,%v", f.name, e1 != nil, e2 != nil, e3 != nil))
			if e1 == nil || e2 == nil {
				// the fault did not hit this call (e.g. WriteAt-after on a path that ignores it): nothing to judge
				drv.CloseWAL(w)
				continue
			}
			if e3 == nil {
				l.Append(a3, 3, true)
			}
			obs := drv.Observe(w, model.ProbeSet([]uint64{5, 6, 7, 8}, l))
			if d := l.Diff(obs); d != "" {
				c.Violation("C10:shrinking-retries:in-process:"+f.name, fmt.Sprintf("after two failed StoreLogs (%s) and a shorter successful one the running process shows: %s", f.name, d), replay)
			}
			drv.CloseWAL(w)
			disk.SetHook(nil)
			w2, err := drv.OpenSim(disk, drv.Cfg{SegSize: 4096})
			if err != nil {
				c.Violation("C10:shrinking-retries:reopen:"+f.name, fmt.Sprintf("clean reopen failed: %v", err), replay)
				continue
			}
			obs2 := drv.Observe(w2, model.ProbeSet([]uint64{5, 6, 7, 8}, l))
			if d := l.Diff(obs2); d != "" {
				c.Violation("C10:shrinking-retries:after-reopen:"+f.name, fmt.Sprintf("two StoreLogs calls failed (%s), a shorter one for the same index succeeded; after a clean reopen the log is not the acknowledged entries: %s", f.name, d), replay)
			}
			drv.CloseWAL(w2)
		}
	}
}

// c10LargeBatches: the commit buffer is a different object above 64 KiB and above 1 MiB
// (grown, possibly not retained). A large batch - as the very first batch of a WAL, as the
// first batch of a segment after a rotation, or later in a segment - fails once or twice on
// its WriteAt or its Sync (before or after the effect), is retried unchanged and succeeds;
// optionally three small batches follow. In the running process and after a clean reopen
// the log must be exactly the acknowledged entries.
func c10LargeBatches(c *evid.Ctx) {
	type fk struct {
		kind  simfs.Kind
		after bool
		name  string
	}
	faults := []fk{{simfs.KSync, false, "Sync-before"}, {simfs.KSync, true, "Sync-after"}, {simfs.KWriteAt, false, "WriteAt-before"}, {simfs.KWriteAt, true, "WriteAt-after"}}
	shapes := []struct {
		name  string
		sizes []int
	}{
		{"1x70KiB", []int{70 << 10}},
		{"1x200KiB", []int{200 << 10}},
		{"1x1.2MiB", []int{1200 << 10}},
		{"4x400KiB", []int{400 << 10, 400 << 10, 400 << 10, 400 << 10}},
		{"small+3MiB", []int{100, 3 << 20}},
	}
	positions := []string{"first-of-wal", "first-of-segment", "later-in-segment"}
	nfails := []int{1}
	if !quick(c) {
		nfails = []int{1, 2}
	}
	sem := make(chan struct{}, 8)
	var wg sync.WaitGroup
	defer wg.Wait()
	for _, seg := range []int{8 << 20, 64 << 10} {
		for _, pos := range positions {
			for _, sh := range shapes {
				for _, f := range faults {
					for _, nf := range nfails {
						for _, follow := range []int{0, 3} {
							seg, pos, sh, f, nf, follow := seg, pos, sh, f, nf, follow
							sem <- struct{}{}
							wg.Add(1)
							go func() {
								defer func() { <-sem; wg.Done() }()
								replay := map[string]any{"scenario": "large-batch", "seg_size": seg, "position": pos, "shape": sh.name, "fault": f.name, "failures": nf, "followups": follow}
								disk := simfs.New(simfs.Strict)
								h := &c10NextN{kind: f.kind, after: f.after}
								disk.SetHook(h)
								w, err := drv.OpenSim(disk, drv.Cfg{SegSize: seg})
								if err != nil {
									c.Violation("C10:open", err.Error(), nil)
									return
								}
								l := model.NewLog()
								next := uint64(1)
								small := func(n int, tag string) bool {
									for i := 0; i < n; i++ {
										lg := &raft.Log{Index: next, Term: 2, Type: raft.LogCommand, Data: bytes.Repeat([]byte{'s'}, 40+i), Extensions: []byte(tag)}
										if r := drv.Apply(w, gen.Op{Kind: "append", Logs: []*raft.Log{lg}}); r.Err != nil {
											c.Violation("C10:large-batch:append", fmt.Sprintf("fault-free append failed: %v", r.Err), replay)
											return false
										}
										l.Append([]*raft.Log{lg}, int(next), true)
										next++
									}
									return true
								}
								ok := true
								switch pos {
								case "first-of-segment":
									// one entry as large as the segment: it seals it, the next batch opens a new file
									big := &raft.Log{Index: next, Term: 2, Data: bytes.Repeat([]byte{'f'}, seg)}
									if r := drv.Apply(w, gen.Op{Kind: "append", Logs: []*raft.Log{big}}); r.Err != nil {
										ok = false
									} else {
										l.Append([]*raft.Log{big}, int(next), true)
										next++
									}
								case "later-in-segment":
									ok = small(2, "pre")
								}
								if !ok {
									drv.CloseWAL(w)
									return
								}
								var batch []*raft.Log
								for i, sz := range sh.sizes {
									d := make([]byte, sz)
									for k := range d {
										d[k] = byte('A' + (k+i)%23)
									}
									batch = append(batch, &raft.Log{Index: next + uint64(i), Term: 3, Type: raft.LogCommand, Data: d})
								}
								h.n = nf
								failed := 0
								var lastErr error
								for try := 0; try < nf+2; try++ {
									r := drv.Apply(w, gen.Op{Kind: "append", Logs: batch})
									lastErr = r.Err
									if r.Err == nil {
										break
									}
									failed++
								}
								h.n = 0
								c.Count("large_batch_scripts", 1)
								c.Count("faulted_runs", 1)
								c.Distinct("fault_classes", fmt.Sprintf("large-batch|%s|%s|%s|seg=%d|failed=%d", f.name, pos, sh.name, seg, failed))
								var alt *model.Log // the failed batch applied in full: legal after the reopen
								if lastErr != nil {
									// refusing further writes after a fault is allowed; what was acknowledged must still be there
									c.Count("large_batch_retry_refused", 1)
									alt = l.Clone()
									alt.Append(batch, int(next), true)
								} else {
									l.Append(batch, int(next), true)
									next += uint64(len(batch))
									if follow > 0 && !small(follow, "post") {
										drv.CloseWAL(w)
										return
									}
								}
								probes := []uint64{1, 2, 3, 4, 5, 6, 7, 8, 9}
								if d := l.Diff(drv.Observe(w, model.ProbeSet(probes, l))); d != "" {
									c.Violation("C10:large-batch:in-process:"+f.name, fmt.Sprintf("%s batch (%s, %s) failed %d time(s) and was retried; the running process shows: %s", sh.name, pos, f.name, failed, d), replay)
								}
								drv.CloseWAL(w)
								disk.SetHook(nil)
								w2, err := drv.OpenSim(disk, drv.Cfg{SegSize: seg})
								if err != nil {
									c.Violation("C10:large-batch:reopen:"+f.name, fmt.Sprintf("%s batch (%s, %s) failed %d time(s), the retry was acknowledged (err=%v); clean reopen failed: %v", sh.name, pos, f.name, failed, lastErr, err), replay)
									return
								}
								obs2 := drv.Observe(w2, model.ProbeSet(probes, l))
								if d := l.Diff(obs2); d != "" && (alt == nil || alt.Diff(obs2) != "") {
									c.Violation("C10:large-batch:after-reopen:"+f.name, fmt.Sprintf("%s batch (%s, %s) failed %d time(s), the retry was acknowledged (err=%v); after a clean reopen the log is not the acknowledged entries: %s", sh.name, pos, f.name, failed, lastErr, d), replay)
								}
								drv.CloseWAL(w2)
							}()
						}
					}
				}
			}
		}
	}
}
