package checks

import (
	"fmt"
	"math/rand"
	"sort"
	"sync"
	"sync/atomic"
	"time"

	"github.com/hashicorp/raft"
	"github.com/hashicorp/raft-wal/segment"

	"verif/internal/drv"
	"verif/internal/evid"
	"verif/internal/gen"
	"verif/internal/hooks"
	"verif/internal/sched"
	"verif/internal/simfs"
)

// c13Quiescent is the monitor shared by the concurrent C13 scenarios. It must only be
// called when no reader call is in flight and no background rotation is pending. It
// judges three things, all of which are what "disk space is reclaimed" means on a real
// filesystem: (1) the directory holds exactly the files of the committed metadata,
// (2) no open handle refers to a file that has been unlinked (an unlinked file keeps its
// blocks for as long as somebody has it open), (3) every file of the metadata exists.
func c13Quiescent(c *evid.Ctx, disk *simfs.Disk, where string, replay map[string]any) bool {
	want := map[string]bool{}
	for _, s := range disk.MetaSnapshot().State.Segments {
		want[segment.FileName(s)] = true
	}
	var extra, missing []string
	for _, n := range disk.List() {
		if !want[n] {
			extra = append(extra, n)
		}
		delete(want, n)
	}
	for n := range want {
		missing = append(missing, n)
	}
	sort.Strings(missing)
	ok := true
	c.Count("quiescent_listings_compared", 1)
	if len(extra) > 0 || len(missing) > 0 {
		ok = false
		c.Violation("C13:files-remain-after-delete:"+where,
			fmt.Sprintf("at a quiescent point (all reads returned, rotation finished) the directory differs from the committed metadata: extra %v missing %v", extra, missing), replay)
	}
	if h, b := disk.UnlinkedOpen(); h > 0 {
		ok = false
		c.Violation("C13:deleted-file-still-open:"+where,
			fmt.Sprintf("at a quiescent point %d open handle(s) still refer to unlinked segment files (%d bytes that a real filesystem cannot reclaim)", h, b), replay)
	}
	return ok
}

// c13Stress: one writer (appends with rotations, head / tail / whole-log truncations,
// re-appends) against 2-5 readers under seeded perturbation at the hook points. Readers
// pin states at arbitrary moments, so the finalizers that close and unlink dropped
// segments run now on the writer's goroutine, now on a reader's. At quiescent points the
// monitor above is applied; at the end also after Close.
func c13Stress(c *evid.Ctx, seed int64) {
	rng := rand.New(rand.NewSource(seed))
	disk := simfs.New(simfs.Strict)
	seg := []int{200, 256, 320, 512}[rng.Intn(4)]
	w, err := drv.OpenSim(disk, drv.Cfg{SegSize: seg})
	if err != nil {
		c.Violation("C13:open", err.Error(), nil)
		return
	}
	replay := map[string]any{"scenario": "stress", "seed": seed, "seg_size": seg}
	var gate sync.RWMutex
	var first, last atomic.Uint64 // the writer's view, for readers to aim at
	var opSeq atomic.Int64        // bumped before and after every truncation
	var stop atomic.Bool
	var readerIDs sync.Map
	var finOnReader, finOnOther atomic.Int64
	rmL := hooks.OnWAL(func(point string, arg any) {
		if point != "state.finalizer.begin" {
			return
		}
		if _, ok := readerIDs.Load(sched.Goid()); ok {
			finOnReader.Add(1)
		} else {
			finOnOther.Add(1)
		}
	})
	defer rmL()
	nr := 2 + rng.Intn(4)
	var wg sync.WaitGroup
	var reads, overlapped atomic.Int64
	for r := 0; r < nr; r++ {
		wg.Add(1)
		rr := rand.New(rand.NewSource(seed*131 + int64(r)))
		go func() {
			defer wg.Done()
			readerIDs.Store(sched.Goid(), true)
			defer readerIDs.Delete(sched.Goid())
			var l raft.Log
			for !stop.Load() {
				gate.RLock()
				f, la := first.Load(), last.Load()
				if la >= f && la > 0 {
					idx := f + uint64(rr.Int63n(int64(la-f+1)))
					if rr.Intn(3) == 0 {
						idx = f // the entry most likely to be in a segment about to go
					}
					s0 := opSeq.Load()
					_ = w.GetLog(idx, &l)
					if opSeq.Load() != s0 || s0%2 == 1 {
						overlapped.Add(1)
					}
					reads.Add(1)
				}
				gate.RUnlock()
				if rr.Intn(8) == 0 {
					time.Sleep(time.Duration(rr.Intn(50)) * time.Microsecond)
				}
			}
		}()
	}
	next := uint64(1)
	if rng.Intn(3) == 0 {
		next = 1000
	}
	f, la := uint64(0), uint64(0)
	appendN := func(n int) bool {
		var logs []*raft.Log
		for i := 0; i < n; i++ {
			logs = append(logs, gen.Entry(rng, next+uint64(i), "s", 30+rng.Intn(90)))
		}
		if err := w.StoreLogs(logs); err != nil {
			c.Violation("C13:stress-append", err.Error(), replay)
			return false
		}
		if la == 0 || la < f {
			f = next
		}
		next += uint64(n)
		la = next - 1
		first.Store(f)
		last.Store(la)
		return true
	}
	quiesce := func(where string) bool {
		gate.Lock()
		defer gate.Unlock()
		if !hooks.WaitRotation(w, drv.Watchdog) {
			c.Inconclusive("C13 stress: rotation did not finish within the watchdog (seed %d)", seed)
			return false
		}
		segs := len(disk.MetaSnapshot().State.Segments)
		c.Distinct("c13_nontrivial", fmt.Sprintf("stress|%s|segs=%d|files=%d|readers=%d", where, segs, len(disk.List()), nr))
		c.Count("images", 1)
		return c13Quiescent(c, disk, "stress:"+where, replay)
	}
	steps := 120
	if !quick(c) {
		steps = 400
	}
	okRun := true
	for s := 0; s < steps && okRun; s++ {
		where := "append"
		switch k := rng.Intn(10); {
		case k < 5 || la < f || la == 0:
			okRun = appendN(1 + rng.Intn(3))
		case k < 8: // head truncation of 1..all-but-one entries (sometimes exactly to a segment boundary by chance)
			where = "head"
			n := uint64(1 + rng.Intn(int(la-f+1)))
			if n > la-f {
				n = la - f
			}
			if n == 0 {
				continue
			}
			opSeq.Add(1)
			err := w.DeleteRange(f, f+n-1)
			opSeq.Add(1)
			if err != nil {
				c.Violation("C13:stress-delete", err.Error(), replay)
				okRun = false
				break
			}
			f += n
			first.Store(f)
		case k < 9: // tail truncation, then re-append
			where = "tail"
			n := uint64(1 + rng.Intn(int(la-f+1)))
			if n > la-f {
				n = la - f
			}
			if n == 0 {
				continue
			}
			opSeq.Add(1)
			last.Store(la - n)
			err := w.DeleteRange(la-n+1, la)
			opSeq.Add(1)
			if err != nil {
				c.Violation("C13:stress-delete", err.Error(), replay)
				okRun = false
				break
			}
			la -= n
			next = la + 1
			if rng.Intn(2) == 0 {
				if !quiesce("tail") {
					okRun = false
					break
				}
			}
			okRun = appendN(1 + rng.Intn(2))
		default: // everything
			where = "all"
			opSeq.Add(1)
			last.Store(0)
			err := w.DeleteRange(f, la)
			opSeq.Add(1)
			if err != nil {
				c.Violation("C13:stress-delete", err.Error(), replay)
				okRun = false
				break
			}
			la, f = 0, 0
			if rng.Intn(2) == 0 {
				next += uint64(rng.Intn(50))
			}
		}
		if okRun && rng.Intn(2) == 0 {
			okRun = quiesce(where)
		}
	}
	stop.Store(true)
	wg.Wait()
	if okRun {
		quiesce("end")
	}
	drv.CloseWAL(w)
	if files, metas := disk.OpenHandles(); files != 0 || metas != 0 {
		// C14's business (handles after Close); counted, reported there
		c.Count("signals_for_other_properties", 1)
	}
	c.Count("stress_runs", 1)
	c.Count("stress_reads", reads.Load())
	c.Count("stress_reads_overlapping_a_truncation", overlapped.Load())
	c.Count("stress_finalizers_on_reader_goroutines", finOnReader.Load())
	c.Count("stress_finalizers_on_other_goroutines", finOnOther.Load())
}

// c13TwoReaders: reader A pins the state before truncation 1, reader B the state between
// truncation 1 and truncation 2; they are released in both orders. Only after the last
// release the monitor applies in full; before that no file of the metadata may be missing.
func c13TwoReaders(c *evid.Ctx) {
	kinds := []string{"head", "tail", "all", "head-inside"}
	rangeOf := func(kind string, f, l uint64) (uint64, uint64) {
		switch kind {
		case "head":
			return f, f + 3
		case "head-inside":
			return f, f
		case "tail":
			return l - 3, l
		}
		return f, l
	}
	points := []string{"GetLog.acquired", "readFrame.beforeRead"}
	for _, k1 := range kinds {
		for _, k2 := range kinds {
			if k1 == "all" {
				continue // nothing left for reader B to pin
			}
			for _, order := range []string{"AB", "BA"} {
				for _, pt := range points {
					replay := map[string]any{"scenario": "two-readers", "first": k1, "second": k2, "release": order, "parked_at": pt}
					rng := rand.New(rand.NewSource(c.Seed*17 + int64(len(k1)*7+len(k2)*3+len(order)+len(pt))))
					disk := simfs.New(simfs.Strict)
					w, err := drv.OpenSim(disk, drv.Cfg{SegSize: 300})
					if err != nil {
						c.Violation("C13:open", err.Error(), nil)
						return
					}
					idx := uint64(1)
					stored := map[uint64]*raft.Log{}
					for b := 0; b < 8; b++ {
						var logs []*raft.Log
						for i := 0; i < 2; i++ {
							e := gen.Entry(rng, idx, "t", 60)
							stored[idx] = e
							logs = append(logs, e)
							idx++
						}
						if rr := drv.Apply(w, gen.Op{Kind: "append", Logs: logs}); rr.Err != nil {
							c.Violation("C13:append", rr.Err.Error(), replay)
						}
					}
					f, l := uint64(1), idx-1
					ctl := sched.New()
					remove := ctl.Install()
					type rd struct {
						park *sched.Parking
						done chan error
						idx  uint64
						got  raft.Log
					}
					start := func(role string, i uint64) *rd {
						r := &rd{park: ctl.ParkAt(role, pt, 0), done: make(chan error, 1), idx: i}
						go func() {
							ctl.Tag(role)
							r.done <- w.GetLog(i, &r.got)
						}()
						if !r.park.WaitReached(5 * time.Second) {
							c.Count("pinning_point_not_on_path", 1)
						}
						return r
					}
					min1, max1 := rangeOf(k1, f, l)
					a := start("readerA", min1) // an entry truncation 1 removes
					err1 := w.DeleteRange(min1, max1)
					hooks.WaitRotation(w, drv.Watchdog)
					if k1 == "tail" {
						l = min1 - 1
					} else {
						f = max1 + 1
					}
					min2, max2 := rangeOf(k2, f, l)
					b := start("readerB", min2) // an entry truncation 2 removes
					err2 := w.DeleteRange(min2, max2)
					hooks.WaitRotation(w, drv.Watchdog)
					if err1 != nil || err2 != nil {
						c.Violation("C13:pinning-delete-error", fmt.Sprint(err1, err2), replay)
					}
					pinned := len(disk.List())
					seq := []*rd{a, b}
					if order == "BA" {
						seq = []*rd{b, a}
					}
					for i, r := range seq {
						r.park.Release()
						select {
						case e := <-r.done:
							// the index was removed during the read, so C06 allows any error here; content
							// returned with a nil error that is not what was stored is C06's business too
							if e != nil {
								c.Count("pinned_reader_got_error", 1)
							} else if want := stored[r.idx]; want != nil && string(r.got.Data) != string(want.Data) {
								c.Count("signals_for_other_properties", 1)
							} else {
								c.Count("pinned_reader_got_its_entry", 1)
							}
						case <-time.After(60 * time.Second):
							c.Violation("C13:pinned-reader-stuck", "reader did not return after release", replay)
						}
						if i == 0 {
							// one reader still pins: no file of the metadata may be missing
							for _, s := range disk.MetaSnapshot().State.Segments {
								found := false
								for _, n := range disk.List() {
									if n == segment.FileName(s) {
										found = true
									}
								}
								if !found {
									c.Violation("C13:live-file-missing", fmt.Sprintf("file %s of the committed metadata is not in the directory", segment.FileName(s)), replay)
								}
							}
						}
					}
					remove()
					c.Count("pinning_scripts", 1)
					c.Count("images", 1)
					c.Distinct("c13_nontrivial", fmt.Sprintf("two|%s|%s|%s|%s|files %d->%d", k1, k2, order, pt, pinned, len(disk.List())))
					c13Quiescent(c, disk, "two-readers:"+k1+"+"+k2, replay)
					drv.CloseWAL(w)
				}
			}
		}
	}
}

// c13Spin: the windows that have no hook point. Readers spin on GetLog / FirstIndex /
// LastIndex with nothing slowing them down (no perturbation, no gate between calls)
// while the writer issues back-to-back single-entry head truncations and rotating
// appends, so that on a multi-core machine releases of the old state and the writer's
// publication of the next one collide constantly. Every few writer steps the readers
// are stopped at a barrier and the quiescent monitor is applied.
func c13Spin(c *evid.Ctx, seed int64, rounds int) {
	rng := rand.New(rand.NewSource(seed))
	disk := simfs.New(simfs.Strict)
	w, err := drv.OpenSim(disk, drv.Cfg{SegSize: 256})
	if err != nil {
		c.Violation("C13:open", err.Error(), nil)
		return
	}
	replay := map[string]any{"scenario": "spin", "seed": seed}
	var gate sync.RWMutex
	var first, last atomic.Uint64
	var stop atomic.Bool
	var reads atomic.Int64
	var wg sync.WaitGroup
	nr := 2 + int(seed%3)
	for r := 0; r < nr; r++ {
		wg.Add(1)
		kind := r % 3
		go func() {
			defer wg.Done()
			var l raft.Log
			for !stop.Load() {
				gate.RLock()
				for k := 0; k < 64; k++ {
					switch kind {
					case 0:
						_ = w.GetLog(first.Load(), &l)
					case 1:
						_, _ = w.FirstIndex()
					default:
						_ = w.GetLog(last.Load(), &l)
					}
				}
				reads.Add(64)
				gate.RUnlock()
			}
		}()
	}
	next := uint64(1)
	f := uint64(1)
	ok := true
	check := func(where string) {
		gate.Lock()
		defer gate.Unlock()
		if !hooks.WaitRotation(w, drv.Watchdog) {
			c.Inconclusive("C13 spin: rotation did not finish within the watchdog (seed %d)", seed)
			ok = false
			return
		}
		c.Count("images", 1)
		c.Distinct("c13_nontrivial", fmt.Sprintf("spin|%s|segs=%d|readers=%d", where, len(disk.MetaSnapshot().State.Segments), nr))
		if !c13Quiescent(c, disk, "spin:"+where, replay) {
			ok = false
		}
	}
	for round := 0; round < rounds && ok; round++ {
		// fill: 24 entries, 2 per segment
		for k := 0; k < 12 && ok; k++ {
			logs := []*raft.Log{gen.Entry(rng, next, "q", 70), gen.Entry(rng, next+1, "q", 70)}
			if err := w.StoreLogs(logs); err != nil {
				c.Violation("C13:spin-append", err.Error(), replay)
				ok = false
				break
			}
			next += 2
			last.Store(next - 1)
			if first.Load() == 0 {
				first.Store(f)
			}
		}
		check("filled")
		// drain: one entry per DeleteRange, back to back
		for f+2 < next && ok {
			if err := w.DeleteRange(f, f); err != nil {
				c.Violation("C13:spin-delete", err.Error(), replay)
				ok = false
				break
			}
			f++
			first.Store(f)
			c.Count("spin_truncations", 1)
		}
		check("drained")
	}
	stop.Store(true)
	wg.Wait()
	if ok {
		check("end")
	}
	drv.CloseWAL(w)
	c.Count("spin_runs", 1)
	c.Count("spin_reads", reads.Load())
}

// c13Concurrent runs the concurrent scenarios (called from runCrash for C13).
func c13Concurrent(c *evid.Ctx) {
	c13TwoReaders(c)
	{
		// before any perturbation is installed: the spinning phase wants full speed
		nspin, rounds := 8, 6
		if !quick(c) {
			nspin, rounds = 64, 20
		}
		var sw sync.WaitGroup
		for k := 0; k < nspin; k++ {
			sw.Add(1)
			go func(k int) {
				defer sw.Done()
				c13Spin(c, c.Seed*911+int64(k), rounds)
			}(k)
			if (k+1)%4 == 0 {
				sw.Wait() // at most 4 at a time: each has up to 4 spinning readers
			}
		}
		sw.Wait()
	}
	ctl := sched.New()
	ctl.Perturb(c.Seed*3+1, 0.2)
	remove := ctl.Install()
	n := 48
	if !quick(c) {
		n = 1200
	}
	jobs := make(chan int64, 8)
	var wg sync.WaitGroup
	for k := 0; k < 8; k++ {
		wg.Add(1)
		go func() {
			defer wg.Done()
			for s := range jobs {
				c13Stress(c, s)
			}
		}()
	}
	for k := 0; k < n; k++ {
		jobs <- c.Seed*6007 + int64(k)
	}
	close(jobs)
	wg.Wait()
	remove()
	c.Extra("hook_hits_c13_stress", ctl.Hits())
}
