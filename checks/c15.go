package checks

import (
	"bytes"
	"errors"
	"fmt"
	"math/rand"
	"runtime"
	"runtime/debug"
	"sync"
	"sync/atomic"
	"time"

	"github.com/hashicorp/raft"
	wal "github.com/hashicorp/raft-wal"

	"verif/internal/drv"
	"verif/internal/evid"
	"verif/internal/hooks"
	"verif/internal/model"
	"verif/internal/simfs"
)

func init() {
	register("C15", &Check{Level: "exploration", Run: runC15})
}

const c15MaxEntry = 64 * 1024 * 1024

// c15Entry builds an entry whose *encoded* length (what the segment layer sees
// as the frame payload) is exactly enc bytes, or the smallest possible if enc is
// below the codec's fixed overhead.
func c15Entry(idx uint64, enc int, fill byte) (*raft.Log, int) {
	l := &raft.Log{Index: idx, Term: 3, Type: raft.LogCommand, AppendedAt: time.Unix(1700000000, 0).UTC()}
	codec := &wal.BinaryCodec{}
	// encoded length = fixed overhead (with a 1-byte length varint) + extra length-varint bytes + n
	var b0 bytes.Buffer
	codec.Encode(l, &b0)
	base := b0.Len()
	vlen := func(n int) int {
		k := 1
		for x := uint64(n); x >= 0x80; x >>= 7 {
			k++
		}
		return k
	}
	n := enc - base
	if n < 0 {
		n = 0
	}
	for i := 0; i < 3 && n > 0 && base+vlen(n)-1+n != enc; i++ {
		n = enc - base - (vlen(n) - 1)
		if n < 0 {
			n = 0
		}
	}
	l.Data = make([]byte, n)
	got := base + vlen(n) - 1 + n
	if n < 1<<16 {
		var b bytes.Buffer
		codec.Encode(l, &b)
		got = b.Len()
	}
	for i := range l.Data {
		l.Data[i] = fill + byte(i%251)
	}
	return l, got
}

type c15Case struct {
	Seg      int    `json:"seg_size"`
	Enc      int    `json:"encoded_len"`
	Pos      string `json:"position"` // alone | first | middle | last
	Class    string `json:"class"`
	Prefill  int    `json:"prefill_entries"`
	StartIdx uint64 `json:"start"`
}

func c15Run(c *evid.Ctx, cs c15Case) {
	disk := simfs.New(simfs.Strict)
	w, err := drv.OpenSim(disk, drv.Cfg{SegSize: cs.Seg})
	if err != nil {
		c.Violation("C15:open", err.Error(), cs)
		return
	}
	defer func() {
		if w != nil {
			drv.CloseWAL(w)
		}
	}()
	l := model.NewLog()
	idx := cs.StartIdx
	// prefill so the entry lands at different offsets within the segment
	for i := 0; i < cs.Prefill; i++ {
		e, _ := c15Entry(idx, 40+i*3, byte(i))
		if err := w.StoreLogs([]*raft.Log{e}); err != nil {
			c.Violation("C15:prefill-store", err.Error(), cs)
			return
		}
		l.Append([]*raft.Log{e}, i, true)
		idx++
	}
	small := func() *raft.Log { e, _ := c15Entry(idx, 30, 7); return e }
	var batch []*raft.Log
	var target *raft.Log
	var gotEnc int
	switch cs.Pos {
	case "alone":
		target, gotEnc = c15Entry(idx, cs.Enc, 1)
		batch = []*raft.Log{target}
	case "first":
		target, gotEnc = c15Entry(idx, cs.Enc, 1)
		idx++
		a := small()
		idx++
		b := small()
		batch = []*raft.Log{target, a, b}
	case "middle":
		a := small()
		idx++
		target, gotEnc = c15Entry(idx, cs.Enc, 1)
		idx++
		b := small()
		batch = []*raft.Log{a, target, b}
	default: // last
		a := small()
		idx++
		b := small()
		idx++
		target, gotEnc = c15Entry(idx, cs.Enc, 1)
		batch = []*raft.Log{a, b, target}
	}
	c.Count("size_cases", 1)
	c.Distinct("case_classes", fmt.Sprintf("%s|%s|seg=%d|res=%d", cs.Class, cs.Pos, cs.Seg, gotEnc%8))
	c.Distinct("padding_residues", fmt.Sprint(gotEnc%8))
	err = w.StoreLogs(batch)
	hooksWait(w)
	replay := map[string]any{"case": cs, "actual_encoded_len": gotEnc}
	if err != nil {
		c.Count("rejected", 1)
		c.Distinct("rejected_classes", cs.Class)
		if gotEnc <= c15MaxEntry {
			c.Violation("C15:rejected-within-limit:"+cs.Class, fmt.Sprintf("StoreLogs refused an entry of encoded size %d (<= 64MiB): %v", gotEnc, err), replay)
		}
		// reject => unchanged
		obs := drv.Observe(w, model.ProbeSet(nil, l))
		if d := l.Diff(obs); d != "" {
			c.Violation("C15:reject-changed-log:"+cs.Class, "a refused StoreLogs changed the log: "+d, replay)
		}
		// and still usable
		e2 := small()
		e2.Index = l.Last + 1
		if l.Empty() {
			e2.Index = cs.StartIdx
		}
		if err2 := w.StoreLogs([]*raft.Log{e2}); err2 != nil {
			c.Violation("C15:unusable-after-reject:"+cs.Class, fmt.Sprintf("after refusing an oversized entry the WAL refuses a normal one: %v", err2), replay)
		}
		return
	}
	c.Count("accepted", 1)
	l.Append(batch, 1000, true)
	check := func(when string) bool {
		for _, e := range batch {
			var out raft.Log
			if err := w.GetLog(e.Index, &out); err != nil {
				sig := "C15:accepted-unreadable:" + cs.Class
				if gotEnc > c15MaxEntry {
					sig = "C15:accepted-unreadable:>MaxEntrySize"
				}
				c.Violation(sig, fmt.Sprintf("StoreLogs acknowledged an entry of encoded size %d (position %s, seg %d) but GetLog(%d) %s fails: %v", gotEnc, cs.Pos, cs.Seg, e.Index, when, err), replay)
				return false
			}
			if d := model.LogDiff(&out, e); d != "" {
				c.Violation("C15:accepted-differs:"+cs.Class, fmt.Sprintf("GetLog(%d) %s differs (encoded size %d): %s", e.Index, when, gotEnc, d), replay)
				return false
			}
		}
		// entries above the 64 KiB read buffer take the reader's second path; read them again
		// while other goroutines read too (sizes up to a few MiB only: each read allocates)
		if gotEnc > 60000 && gotEnc < 8<<20 && len(batch) > 0 {
			var wg sync.WaitGroup
			var bad atomic.Value
			for g := 0; g < 4; g++ {
				wg.Add(1)
				go func(g int) {
					defer wg.Done()
					for r := 0; r < 6; r++ {
						e := batch[(g+r)%len(batch)]
						var out raft.Log
						if err := w.GetLog(e.Index, &out); err != nil {
							bad.Store(fmt.Sprintf("GetLog(%d) %s, read concurrently, fails: %v", e.Index, when, err))
							return
						}
						if d := model.LogDiff(&out, e); d != "" {
							bad.Store(fmt.Sprintf("GetLog(%d) %s, read concurrently, differs: %s", e.Index, when, d))
							return
						}
					}
				}(g)
			}
			wg.Wait()
			c.Count("concurrent_readbacks", 1)
			if b := bad.Load(); b != nil {
				c.Violation("C15:accepted-differs-concurrent:"+cs.Class, fmt.Sprintf("entry of encoded size %d: %s", gotEnc, b), replay)
				return false
			}
		}
		obs := drv.Observe(w, []uint64{l.First, l.Last, l.Last + 1})
		if obs.First != l.First || obs.Last != l.Last {
			c.Violation("C15:bounds:"+cs.Class, fmt.Sprintf("%s First/Last=%d/%d want %d/%d", when, obs.First, obs.Last, l.First, l.Last), replay)
			return false
		}
		return true
	}
	if !check("in-process") {
		return
	}
	// a further batch in the same process (same writer, possibly the same segment) must not
	// disturb what was just acknowledged
	{
		e2, _ := c15Entry(l.Last+1, 77, 5)
		if err := w.StoreLogs([]*raft.Log{e2}); err != nil {
			c.Violation("C15:append-after:"+cs.Class, fmt.Sprintf("append right after an entry of encoded size %d failed: %v", gotEnc, err), replay)
			return
		}
		hooksWait(w)
		batch = append(batch, e2)
		l.Append([]*raft.Log{e2}, 1500, true)
		if !check("after-next-batch-in-process") {
			return
		}
	}
	// earlier entries must be intact too
	obs := drv.Observe(w, model.ProbeSet(nil, l))
	if gotEnc < 1<<20 {
		if d := l.Diff(obs); d != "" {
			c.Violation("C15:neighbours-damaged:"+cs.Class, d, replay)
			return
		}
	}
	drv.CloseWAL(w)
	w, err = drv.OpenSim(disk, drv.Cfg{SegSize: cs.Seg})
	if err != nil {
		w = nil
		c.Violation("C15:reopen-failed:"+cs.Class, fmt.Sprintf("reopen after storing an entry of encoded size %d failed: %v", gotEnc, err), replay)
		return
	}
	if !check("after-reopen") {
		return
	}
	// more appends after the big one; everything accepted so far must still read back
	for k := 0; k < 2; k++ {
		e3, _ := c15Entry(l.Last+1, 25+k*300, 9)
		if err := w.StoreLogs([]*raft.Log{e3}); err != nil {
			c.Violation("C15:append-after:"+cs.Class, err.Error(), replay)
			return
		}
		hooksWait(w)
		batch = append(batch, e3)
		l.Append([]*raft.Log{e3}, 2000+k, true)
	}
	if !check("after-later-appends") {
		return
	}
	drv.CloseWAL(w)
	w, err = drv.OpenSim(disk, drv.Cfg{SegSize: cs.Seg})
	if err != nil {
		w = nil
		c.Violation("C15:reopen-failed:"+cs.Class, fmt.Sprintf("second reopen failed: %v", err), replay)
		return
	}
	check("after-later-appends-and-reopen")
}

func hooksWait(w *wal.WAL) { hooks.WaitRotation(w, drv.Watchdog) }

func runC15(c *evid.Ctx) {
	c.Rule("entries whose ENCODED length is placed in neighbourhoods of 0, every 8-byte padding residue, the 64KiB read buffer (frame header included) +-24, the segment size limit +- frame/index/commit overhead, larger than a whole segment, and 64MiB +-k; as alone/first/middle/last of a batch; with 0-3 prefilled entries; segment sizes 512B, 64KiB, 1MiB, the default and 96MiB (so that a 64MiB entry stays in the unsealed tail and is recovered by the scan at the next Open); oracle: acknowledged => readable and equal in-process and after reopen, refused => log unchanged and still usable, sizes <= 64MiB are never refused; non-trivial = distinct (size class, batch position, segment size, padding residue)",
		"size_cases", "case_classes")
	rng := rand.New(rand.NewSource(c.Seed))
	var cases []c15Case
	positions := []string{"alone", "first", "middle", "last"}
	add := func(seg, enc int, class string) {
		cases = append(cases, c15Case{Seg: seg, Enc: enc, Pos: positions[rng.Intn(4)], Class: class, Prefill: rng.Intn(4), StartIdx: []uint64{1, 1, 500, 1 << 33}[rng.Intn(4)]})
	}
	q := quick(c)
	segs := []int{512, 64 * 1024, 1 << 20}
	for _, seg := range segs {
		for enc := 18; enc <= 60; enc++ {
			if q && enc > 44 && enc%3 != 0 {
				continue
			}
			add(seg, enc, "tiny")
		}
		step := 1
		if q {
			step = 3
		}
		for d := -24; d <= 24; d += step {
			add(seg, 64*1024-8+d, "readbuf-frame")
			add(seg, 64*1024+d, "readbuf-payload")
		}
		for d := -48; d <= 48; d += step * 2 {
			add(seg, seg-32+d, "seglimit")
			add(seg, seg+d, "seglimit")
		}
		add(seg, seg*2+rng.Intn(100), ">segment")
		add(seg, seg*3+rng.Intn(1000), ">segment")
	}
	// between the read buffer and the maximum: batches of several MiB that do not fill
	// their segment (so later batches land behind them in the same file)
	for _, enc := range []int{1<<20 - 9, 1<<20 + 1, 2<<20 + 5, 5<<20 + 3} {
		if q && enc > 3<<20 {
			continue
		}
		cases = append(cases, c15Case{Seg: 16 << 20, Enc: enc, Pos: positions[rng.Intn(4)], Class: "multi-MiB", Prefill: rng.Intn(3), StartIdx: 1})
	}
	// the 64MiB edge, default segment size
	edge := []int{-1, 0, 1, 9}
	if !q {
		edge = []int{-64, -9, -8, -7, -2, -1, 0, 1, 2, 7, 8, 9, 64, 4096}
	}
	var big []c15Case
	for _, d := range edge {
		big = append(big, c15Case{Seg: wal.DefaultSegmentSize, Enc: c15MaxEntry + d, Pos: positions[rng.Intn(4)], Class: "64MiB-edge", Prefill: rng.Intn(2), StartIdx: 1})
	}
	// the same edge in a segment large enough that the entry does not seal it: it stays in
	// the unsealed tail and goes through the recovery scan at the next Open
	unsealed := []int{0, -7}
	if !q {
		unsealed = []int{-9, -8, -7, -1, 0, 1}
	}
	for _, d := range unsealed {
		big = append(big, c15Case{Seg: 96 << 20, Enc: c15MaxEntry + d, Pos: positions[rng.Intn(4)], Class: "64MiB-edge-unsealed-tail", Prefill: 1, StartIdx: 1})
	}
	if !q {
		for i := 0; i < 6; i++ {
			big = append(big, c15Case{Seg: []int{1 << 20, 64 * 1024}[i%2], Enc: c15MaxEntry + []int{-1, 0, 1}[i%3], Pos: positions[rng.Intn(4)], Class: "64MiB-edge-small-seg", StartIdx: 1})
		}
		// thorough: repeat the small cases with other positions/prefills
		n := len(cases)
		for r := 0; r < 4; r++ {
			for i := 0; i < n; i++ {
				cs := cases[i]
				cs.Pos = positions[rng.Intn(4)]
				cs.Prefill = rng.Intn(4)
				cases = append(cases, cs)
			}
		}
	}
	c.Sample(cases[0])
	c.Sample(big[0])
	jobs := make(chan c15Case, 64)
	var wg sync.WaitGroup
	for i := 0; i < runtime.NumCPU(); i++ {
		wg.Add(1)
		go func() {
			defer wg.Done()
			for cs := range jobs {
				c15Run(c, cs)
			}
		}()
	}
	for _, cs := range cases {
		jobs <- cs
	}
	close(jobs)
	wg.Wait()
	// the huge ones one at a time (each needs a few hundred MB)
	for _, cs := range big {
		c15Run(c, cs)
		debug.FreeOSMemory()
	}
	c.Extra("edge_cases_64MiB", len(big))
	_ = errors.Is
}
