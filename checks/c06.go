package checks

import (
	"errors"
	"fmt"
	"math/rand"
	"os"
	"strings"
	"sync"
	"sync/atomic"
	"time"

	"github.com/anishathalye/porcupine"
	"github.com/hashicorp/raft"
	wal "github.com/hashicorp/raft-wal"

	"verif/internal/drv"
	"verif/internal/evid"
	"verif/internal/gen"
	"verif/internal/hist"
	"verif/internal/hooks"
	"verif/internal/model"
	"verif/internal/sched"
	"verif/internal/simfs"
)

func init() {
	register("C06", &Check{Level: "exploration", Race: true, Run: runC06})
}

// c06Writer performs one writer op against w, records it, returns the new model.
type c06Writer struct {
	w        *wal.WAL
	h        *hist.History
	l        *model.Log
	rng      *rand.Rand
	n        int
	syncDone atomic.Int64 // set by the segment hook "append.synced" on the writer goroutine
	hot      *atomic.Pointer[[4]uint64]
	gid      atomic.Int64 // goroutine currently acting as this writer
}

func (cw *c06Writer) do(kind string) error {
	l := cw.l
	op := &hist.WriteOp{Kind: kind}
	var err error
	cw.n++
	tag := fmt.Sprintf("g%d", cw.n)
	mkBatch := func(next uint64, k int, big bool) []*raft.Log {
		var logs []*raft.Log
		for i := 0; i < k; i++ {
			sz := 10 + cw.rng.Intn(50)
			if big && i == 0 {
				sz = 200 + cw.rng.Intn(100)
			}
			logs = append(logs, gen.Entry(cw.rng, next+uint64(i), tag, sz))
		}
		return logs
	}
	nl := l.Clone()
	cw.syncDone.Store(0)
	cw.gid.Store(sched.Goid())
	switch kind {
	case "append", "reappend", "reset":
		next := l.Last + 1
		if l.Empty() {
			next = 1
			if kind == "reset" {
				next = uint64(100 + cw.rng.Intn(1000))
			}
		}
		logs := mkBatch(next, 1+cw.rng.Intn(3), cw.rng.Intn(3) == 0)
		op.FirstBatch, op.LastBatch = logs[0].Index, logs[len(logs)-1].Index
		op.Desc = fmt.Sprintf("%s %d..%d", kind, op.FirstBatch, op.LastBatch)
		nl.Append(logs, cw.n, true)
		op.Version = nl
		op.Call = hist.Ticket()
		err = cw.w.StoreLogs(logs)
		op.SyncDone = cw.syncDone.Load()
		op.Ret = hist.Ticket()
	case "delete-head":
		if l.Last-l.First < 2 {
			return nil
		}
		mx := l.First + uint64(cw.rng.Intn(int(min(4, l.Last-l.First))))
		op.Removed = [2]uint64{l.First, mx}
		op.Desc = fmt.Sprintf("delete-head [%d,%d]", l.First, mx)
		nl.DeleteRange(l.First, mx)
		op.Version = nl
		op.Call = hist.Ticket()
		err = cw.w.DeleteRange(l.First, mx)
		op.Ret = hist.Ticket()
	case "delete-tail":
		if l.Last-l.First < 2 {
			return nil
		}
		mn := l.Last - uint64(cw.rng.Intn(int(min(4, l.Last-l.First))))
		op.Removed = [2]uint64{mn, l.Last}
		op.Desc = fmt.Sprintf("delete-tail [%d,%d]", mn, l.Last)
		nl.DeleteRange(mn, l.Last)
		op.Version = nl
		op.Call = hist.Ticket()
		err = cw.w.DeleteRange(mn, l.Last)
		op.Ret = hist.Ticket()
	case "delete-all":
		if l.Empty() {
			return nil
		}
		op.Removed = [2]uint64{l.First, l.Last}
		op.Desc = "delete-all"
		nl.DeleteRange(l.First, l.Last)
		op.Version = nl
		op.Call = hist.Ticket()
		err = cw.w.DeleteRange(l.First, l.Last)
		op.Ret = hist.Ticket()
	}
	if err != nil {
		op.Err = err.Error()
		return fmt.Errorf("writer op %s failed: %w", op.Desc, err)
	}
	cw.h.Writes = append(cw.h.Writes, op)
	cw.l = nl
	if cw.hot != nil {
		hs := [4]uint64{nl.First, nl.Last, nl.Last + 1, op.Removed[0]}
		if op.FirstBatch != 0 {
			hs[3] = op.FirstBatch
		}
		cw.hot.Store(&hs)
	}
	return nil
}

func c06Read(w *wal.WAL, reader int, kind string, idx uint64) (r *hist.ReadOp) {
	r = &hist.ReadOp{Reader: reader, Kind: kind, Index: idx}
	r.Call = hist.Ticket()
	var err error
	defer func() {
		// a panic inside a read is an error other than not-found (and would take the process down)
		if p := recover(); p != nil {
			r.Ret = hist.Ticket()
			r.Err = fmt.Sprintf("panic: %v", p)
		}
	}()
	switch kind {
	case "first":
		r.Val, err = w.FirstIndex()
	case "last":
		r.Val, err = w.LastIndex()
	default:
		var l raft.Log
		err = w.GetLog(idx, &l)
		if err == nil {
			r.Log = &l
		}
	}
	r.Ret = hist.Ticket()
	if err != nil && !errors.Is(err, raft.ErrLogNotFound) {
		r.Err = err.Error()
	}
	return r
}

type c06Env struct {
	w       *wal.WAL
	cleanup func()
}

func c06Open(real bool, seg int) (*c06Env, error) {
	if real {
		dir, err := os.MkdirTemp("", "verif-c06-")
		if err != nil {
			return nil, err
		}
		w, err := drv.OpenDir(dir, drv.Cfg{SegSize: seg})
		if err != nil {
			os.RemoveAll(dir)
			return nil, err
		}
		return &c06Env{w, func() { drv.CloseWAL(w); os.RemoveAll(dir) }}, nil
	}
	w, err := drv.OpenSim(simfs.New(simfs.Strict), drv.Cfg{SegSize: seg})
	if err != nil {
		return nil, err
	}
	return &c06Env{w, func() { drv.CloseWAL(w) }}, nil
}

var c06WriterKinds = []string{"append", "append", "append", "append", "delete-head", "delete-tail", "reappend", "delete-all", "reset"}

// judge checks a finished history both ways.
func c06Judge(c *evid.Ctx, h *hist.History, ctx map[string]any, label string) {
	bad, multi, overlap := h.IntervalCheck()
	c.Count("histories", 1)
	c.Count("reads", int64(len(h.Reads)))
	c.Count("writer_ops", int64(len(h.Writes)))
	c.Count("reads_with_2plus_candidate_versions", int64(multi))
	for k, v := range overlap {
		c.Distinct("overlap_triples", k)
		c.Count("overlap_"+k, int64(v))
	}
	for _, v := range bad {
		r := v.Read
		cls := "stale-or-future-value"
		switch {
		case r.Err != "":
			cls = "unexpected-error"
		case len(v.Reason) > 5 && (v.Reason[:5] == "entry" || v.Reason[:5] == "LastI"):
			cls = "visible-before-durable"
		}
		var ws []string
		for _, j := range v.Candidates {
			if j > 0 {
				ws = append(ws, fmt.Sprintf("v%d=%s[%d,%d]", j, h.Writes[j-1].Desc, h.Writes[j-1].Call, h.Writes[j-1].Ret))
			}
		}
		c.Violation("C06:"+cls+":"+r.Kind+":"+label, fmt.Sprintf("%s read %s(%d) [%d,%d] parked@%q: %s; overlapping writer ops %v", label, r.Kind, r.Index, r.Call, r.Ret, r.ParkedAt, v.Reason, ws),
			map[string]any{"context": ctx, "read": fmt.Sprintf("%s(%d) call=%d ret=%d", r.Kind, r.Index, r.Call, r.Ret), "reason": v.Reason, "writer_ops": ws})
	}
	// second formulation
	if len(h.Reads)+len(h.Writes) <= 4000 {
		res, n := h.Porcupine(60 * time.Second)
		c.Count("porcupine_operations", int64(n))
		switch res {
		case porcupine.Ok:
			c.Count("porcupine_ok", 1)
			// the interval check is stricter (errors, durability); value violations must agree
			for _, v := range bad {
				if v.Read.Err == "" && len(v.Reason) > 8 && v.Reason[:8] == "returned" {
					fmt.Println("HARNESS-ERROR C06: interval check and porcupine disagree on", v.Reason)
					os.Exit(2)
				}
			}
		case porcupine.Illegal:
			c.Count("porcupine_illegal", 1)
			valueBad := false
			for _, v := range bad {
				if len(v.Reason) > 8 && v.Reason[:8] == "returned" {
					valueBad = true
				}
			}
			if !valueBad {
				// every read is individually explainable but no single order of the writer's
				// linearization points explains them all (e.g. one reader saw a new entry and
				// afterwards an older LastIndex)
				c.Violation("C06:not-linearizable:"+label, "porcupine: the history has no linearization although each read alone matches some overlapping version (reads by one reader went back in time)", map[string]any{"context": ctx})
			}
		default:
			c.Count("porcupine_unknown", 1)
			c.Inconclusive("porcupine timed out on a history of %d operations", n)
		}
	}
}

// c06Stress: one writer, several readers, hook perturbation.
func c06Stress(c *evid.Ctx, seed int64) {
	rng := rand.New(rand.NewSource(seed))
	real := rng.Intn(5) == 0
	env, err := c06Open(real, []int{256, 400, 1024}[rng.Intn(3)])
	if err != nil {
		c.Inconclusive("cannot open WAL: %v", err)
		return
	}
	defer env.cleanup()
	h := &hist.History{V0: model.NewLog()}
	hot := &atomic.Pointer[[4]uint64]{}
	hot.Store(&[4]uint64{0, 0, 1, 1})
	cw := &c06Writer{w: env.w, h: h, l: model.NewLog(), rng: rng, hot: hot}
	rm := hooks.OnSegment(func(point string, arg any) {
		// hooks are process-wide: only the fsync made by this history's writer counts
		if point == "append.synced" && sched.Goid() == cw.gid.Load() {
			cw.syncDone.Store(hist.Ticket())
		}
	})
	defer rm()
	stop := make(chan struct{})
	var wg sync.WaitGroup
	nReaders := 2 + rng.Intn(7)
	for r := 0; r < nReaders; r++ {
		wg.Add(1)
		go func(r int) {
			defer wg.Done()
			rr := rand.New(rand.NewSource(seed*131 + int64(r)))
			for i := 0; i < 400; i++ {
				select {
				case <-stop:
					return
				default:
				}
				hs := *hot.Load()
				var op *hist.ReadOp
				switch rr.Intn(6) {
				case 0:
					op = c06Read(env.w, r, "first", 0)
				case 1:
					op = c06Read(env.w, r, "last", 0)
				default:
					idx := hs[rr.Intn(4)]
					if rr.Intn(4) == 0 && hs[1] > hs[0] {
						idx = hs[0] + uint64(rr.Intn(int(hs[1]-hs[0]+1)))
					}
					op = c06Read(env.w, r, "get", idx)
				}
				h.AddRead(op)
			}
		}(r)
	}
	nw := 25 + rng.Intn(40)
	var werr error
	for i := 0; i < nw && werr == nil; i++ {
		kind := c06WriterKinds[rng.Intn(len(c06WriterKinds))]
		if cw.l.Empty() && kind != "reset" {
			kind = "append"
		}
		if kind == "reappend" {
			if err := cw.do("delete-tail"); err != nil {
				werr = err
				break
			}
		}
		if kind == "reset" {
			if err := cw.do("delete-all"); err != nil {
				werr = err
				break
			}
		}
		werr = cw.do(kind)
		// half of the time the next writer op starts while the rotation triggered by this one
		// is still queued (it has to wait for it itself)
		if rng.Intn(2) == 0 {
			hooks.WaitRotation(env.w, drv.Watchdog)
		} else {
			c.Count("writer_ops_issued_without_waiting_for_rotation", 1)
		}
	}
	hooks.WaitRotation(env.w, drv.Watchdog)
	close(stop)
	wg.Wait()
	if werr != nil {
		c.Violation("C06:writer-error", werr.Error(), map[string]any{"stress_seed": seed})
		return
	}
	c06Judge(c, h, map[string]any{"stress_seed": seed, "readers": nReaders, "real_fs": real}, "stress")
	if c.Get("histories") <= 2 {
		var ws []string
		for _, w := range h.Writes {
			if len(ws) < 8 {
				ws = append(ws, fmt.Sprintf("%s[%d,%d]", w.Desc, w.Call, w.Ret))
			}
		}
		c.Sample(map[string]any{"kind": "stress history", "seed": seed, "readers": nReaders, "reads": len(h.Reads), "first_writer_ops": ws})
	}
}

// c06Directed parks a reader at point while one writer op completes.
func c06Directed(c *evid.Ctx, point, wkind, rkind string, real bool, seed int64) {
	rng := rand.New(rand.NewSource(seed))
	env, err := c06Open(real, 300)
	if err != nil {
		c.Inconclusive("cannot open WAL: %v", err)
		return
	}
	defer env.cleanup()
	h := &hist.History{V0: model.NewLog()}
	cw := &c06Writer{w: env.w, h: h, l: model.NewLog(), rng: rng}
	rm := hooks.OnSegment(func(p string, arg any) {
		if p == "append.synced" && sched.Goid() == cw.gid.Load() {
			cw.syncDone.Store(hist.Ticket())
		}
	})
	defer rm()
	// build a log over several segments
	for i := 0; i < 5; i++ {
		if err := cw.do("append"); err != nil {
			c.Violation("C06:writer-error", err.Error(), nil)
			return
		}
		hooks.WaitRotation(env.w, drv.Watchdog)
	}
	ctl := sched.New()
	remove := ctl.Install()
	defer remove()
	// which index does the reader go for?
	var idx uint64
	switch wkind {
	case "delete-head":
		idx = cw.l.First // will be removed
		if rng.Intn(2) == 0 {
			idx = cw.l.Last // survives
		}
	case "delete-tail", "reappend":
		idx = cw.l.Last // removed (and re-appended with different content)
		if rng.Intn(3) == 0 {
			idx = cw.l.First
		}
	case "delete-all", "reset":
		idx = cw.l.First + uint64(rng.Intn(int(cw.l.Last-cw.l.First+1)))
	default:
		idx = cw.l.Last
		if rng.Intn(2) == 0 || strings.HasPrefix(point, "writer.") {
			idx = cw.l.Last + 1 // becomes visible
		}
	}
	park := ctl.ParkAt("reader", point, 0)
	done := make(chan *hist.ReadOp, 1)
	go func() {
		ctl.Tag("reader")
		op := c06Read(env.w, 0, rkind, idx)
		op.ParkedAt = point
		done <- op
	}()
	reached := park.WaitReached(2 * time.Second)
	if !reached {
		park.Release()
		op := <-done
		h.AddRead(op)
		c.Count("directed_point_not_on_path", 1)
		return
	}
	// writer runs to completion (including rotation and, if nobody pins it, the finalizer)
	wdone := make(chan error, 1)
	go func() {
		ctl.Tag("writer")
		var err error
		switch wkind {
		case "reappend":
			if err = cw.do("delete-tail"); err == nil {
				err = cw.do("append")
			}
		case "reset":
			if err = cw.do("delete-all"); err == nil {
				err = cw.do("reset")
			}
		case "append-seal":
			err = cw.do("append")
			if err == nil {
				err = cw.do("append")
			}
		default:
			err = cw.do(wkind)
		}
		hooks.WaitRotation(env.w, drv.Watchdog)
		wdone <- err
	}()
	select {
	case err := <-wdone:
		if err != nil {
			park.Release()
			<-done
			c.Violation("C06:writer-error", err.Error(), map[string]any{"point": point, "writer": wkind})
			return
		}
		c.Count("directed_writer_completed_while_reader_parked", 1)
	case <-time.After(30 * time.Second):
		// the writer needs the reader to move on (should not happen: readers never block the writer)
		park.Release()
		if err := <-wdone; err != nil {
			c.Violation("C06:writer-error", err.Error(), nil)
			<-done
			return
		}
		c.Violation("C06:reader-blocks-writer:"+point, fmt.Sprintf("writer op %s could not complete while a reader was parked at %s", wkind, point), map[string]any{"point": point, "writer": wkind})
	}
	park.Release()
	select {
	case op := <-done:
		h.AddRead(op)
	case <-time.After(60 * time.Second):
		c.Violation("C06:reader-stuck:"+point, "reader did not return after being released", map[string]any{"point": point, "writer": wkind})
		return
	}
	c.Count("directed_scripts", 1)
	c.Distinct("directed", point+"|"+wkind+"|"+rkind)
	c06Judge(c, h, map[string]any{"directed": true, "point": point, "writer": wkind, "read": rkind, "index": idx, "real_fs": real, "seed": seed}, "directed")
}

// c06Follow: readers poll GetLog(next) at the tip of the log while the writer appends
// single-entry batches: the publication order of the tail's offsets and commit index is
// exercised at every append. Readers accept not-found or the intact entry only.
func c06Follow(c *evid.Ctx, seed int64, appends int) {
	env, err := c06Open(false, 4096)
	if err != nil {
		c.Inconclusive("cannot open WAL: %v", err)
		return
	}
	defer env.cleanup()
	var acked atomic.Uint64
	var stop atomic.Bool
	var wg sync.WaitGroup
	var tipHits, reads atomic.Int64
	for r := 0; r < 6; r++ {
		wg.Add(1)
		go func(r int) {
			defer wg.Done()
			next := uint64(1)
			missed := false
			for !stop.Load() {
				a := acked.Load()
				op := c06Read(env.w, r, "get", next)
				reads.Add(1)
				switch {
				case op.Err != "":
					c.Violation("C06:unexpected-error:get:follow", fmt.Sprintf("follower read GetLog(%d) at the tip of the log: %s", next, op.Err), map[string]any{"follow_seed": seed, "index": next})
					return
				case op.Log == nil:
					if next <= a {
						c.Violation("C06:stale-or-future-value:get:follow", fmt.Sprintf("GetLog(%d) not found although the append of %d had been acknowledged before the read started", next, a), map[string]any{"follow_seed": seed, "index": next})
						return
					}
					missed = true
				default:
					want := replayEntry(seed, 0, next, 24)
					if d := model.LogDiff(op.Log, want); d != "" {
						c.Violation("C06:stale-or-future-value:get:follow", fmt.Sprintf("GetLog(%d) returned a damaged entry: %s", next, d), map[string]any{"follow_seed": seed, "index": next})
						return
					}
					if missed {
						tipHits.Add(1)
					}
					missed = false
					next++
				}
			}
		}(r)
	}
	for i := 1; i <= appends; i++ {
		if err := env.w.StoreLogs([]*raft.Log{replayEntry(seed, 0, uint64(i), 24)}); err != nil {
			c.Violation("C06:writer-error", err.Error(), map[string]any{"follow_seed": seed})
			break
		}
		acked.Store(uint64(i))
	}
	stop.Store(true)
	wg.Wait()
	c.Count("follow_appends", int64(appends))
	c.Count("follow_reads", reads.Load())
	c.Count("reads", reads.Load())
	c.Count("follow_reads_that_caught_the_entry_right_after_a_miss", tipHits.Load())
}

// c06Reopened: after a Close/Open the sealed segments are read through readers that Open
// created from the files (their on-disk index), not through the writer that sealed them;
// many goroutines read different entries of the same sealed segments at once while the
// writer goes on appending. Every read must return the intact entry.
func c06Reopened(c *evid.Ctx, seed int64, rounds int) {
	disk := simfs.New(simfs.Strict)
	w, err := drv.OpenSim(disk, drv.Cfg{SegSize: 1024})
	if err != nil {
		c.Inconclusive("cannot open WAL: %v", err)
		return
	}
	rng := rand.New(rand.NewSource(seed))
	want := map[uint64]*raft.Log{}
	var mu sync.Mutex
	var last atomic.Uint64
	add := func(w *wal.WAL, n int) bool {
		var logs []*raft.Log
		for i := 0; i < n; i++ {
			idx := last.Load() + 1 + uint64(i)
			l := gen.Entry(rng, idx, "ro", 40+rng.Intn(120))
			logs = append(logs, l)
			mu.Lock()
			want[idx] = l
			mu.Unlock()
		}
		if err := w.StoreLogs(logs); err != nil {
			c.Violation("C06:writer-error", err.Error(), map[string]any{"reopened_seed": seed})
			return false
		}
		last.Add(uint64(n))
		return true
	}
	for i := 0; i < 20; i++ {
		if !add(w, 3) {
			drv.CloseWAL(w)
			return
		}
	}
	hooks.WaitRotation(w, drv.Watchdog)
	drv.CloseWAL(w)
	w, err = drv.OpenSim(disk, drv.Cfg{SegSize: 1024})
	if err != nil {
		c.Violation("C06:writer-error", "reopen: "+err.Error(), map[string]any{"reopened_seed": seed})
		return
	}
	defer drv.CloseWAL(w)
	sealedMax := last.Load() - 3
	var wg sync.WaitGroup
	var reads atomic.Int64
	for r := 0; r < 8; r++ {
		wg.Add(1)
		go func(r int) {
			defer wg.Done()
			rr := rand.New(rand.NewSource(seed*31 + int64(r)))
			for i := 0; i < rounds; i++ {
				idx := 1 + uint64(rr.Intn(int(sealedMax)))
				op := c06Read(w, r, "get", idx)
				reads.Add(1)
				mu.Lock()
				e := want[idx]
				mu.Unlock()
				if op.Err != "" || op.Log == nil {
					c.Violation("C06:unexpected-error:get:reopened", fmt.Sprintf("GetLog(%d) of an entry in a sealed segment after a reopen, read concurrently: err=%q found=%v", idx, op.Err, op.Log != nil), map[string]any{"reopened_seed": seed, "index": idx})
					return
				}
				if d := model.LogDiff(op.Log, e); d != "" {
					c.Violation("C06:stale-or-future-value:get:reopened", fmt.Sprintf("GetLog(%d) of an entry in a sealed segment after a reopen, read concurrently, is not the entry that was stored: %s", idx, d), map[string]any{"reopened_seed": seed, "index": idx})
					return
				}
			}
		}(r)
	}
	for i := 0; i < 10; i++ {
		if !add(w, 2) {
			break
		}
	}
	wg.Wait()
	c.Count("reads_of_sealed_segments_after_reopen", reads.Load())
	c.Count("reads", reads.Load())
}

// c06Large: entries larger than the pooled 64 KiB read buffer (the reader's second code
// path: release the pooled buffer, allocate, read again) read by many goroutines at once
// while the writer appends more of them; every read must return the intact entry.
func c06Large(c *evid.Ctx, seed int64, rounds int) {
	env, err := c06Open(false, 1<<20)
	if err != nil {
		c.Inconclusive("cannot open WAL: %v", err)
		return
	}
	defer env.cleanup()
	rng := rand.New(rand.NewSource(seed))
	var mu sync.Mutex
	want := map[uint64]*raft.Log{}
	var last atomic.Uint64
	add := func() bool {
		idx := last.Load() + 1
		l := gen.Entry(rng, idx, "big", 66000+rng.Intn(200000))
		mu.Lock()
		want[idx] = l
		mu.Unlock()
		if err := env.w.StoreLogs([]*raft.Log{l}); err != nil {
			c.Violation("C06:writer-error", err.Error(), map[string]any{"large_seed": seed})
			return false
		}
		last.Store(idx)
		return true
	}
	for i := 0; i < 6; i++ {
		if !add() {
			return
		}
	}
	var wg sync.WaitGroup
	var reads atomic.Int64
	for r := 0; r < 8; r++ {
		wg.Add(1)
		go func(r int) {
			defer wg.Done()
			rr := rand.New(rand.NewSource(seed*977 + int64(r)))
			for i := 0; i < rounds; i++ {
				idx := 1 + uint64(rr.Intn(int(last.Load())))
				op := c06Read(env.w, r, "get", idx)
				reads.Add(1)
				mu.Lock()
				w := want[idx]
				mu.Unlock()
				switch {
				case op.Err != "":
					c.Violation("C06:unexpected-error:get:large", fmt.Sprintf("GetLog(%d) of an entry larger than the pooled read buffer, read concurrently: %s", idx, op.Err), map[string]any{"large_seed": seed, "index": idx})
					return
				case op.Log == nil:
					c.Violation("C06:stale-or-future-value:get:large", fmt.Sprintf("GetLog(%d) not found although the entry was acknowledged before the read started", idx), map[string]any{"large_seed": seed, "index": idx})
					return
				default:
					if d := model.LogDiff(op.Log, w); d != "" {
						c.Violation("C06:stale-or-future-value:get:large", fmt.Sprintf("GetLog(%d) of an entry larger than the pooled read buffer, read concurrently, is not the entry that was stored: %s", idx, d), map[string]any{"large_seed": seed, "index": idx})
						return
					}
				}
			}
		}(r)
	}
	for i := 0; i < 6; i++ {
		if !add() {
			break
		}
	}
	wg.Wait()
	c.Count("large_entry_reads", reads.Load())
	c.Count("reads", reads.Load())
}

func runC06(c *evid.Ctx) {
	c.Rule("histories recorded at the API boundary with tickets from one logical clock: one writer (appends with rotation, head truncation, tail truncation followed by re-append of different content at the same indexes, delete-all followed by a base-index reset) against 2-8 readers on hot indexes (first, last, last+1, just truncated, just re-appended) under seeded hook perturbation, plus directed scripts that park a reader at each window (after loadState before acquire, after acquire, before the tail writer's commitIdx load, before its offsets load, between the bound check and the offsets load, before ReadAt) while each kind of writer op runs to completion; every read is checked against the versions that could have been current during its interval (and independently by porcupine), errors other than not-found are legal only for an index an overlapping truncation removed, entries may only be returned after their batch's fsync completed; plus a tail-follower phase (readers polling GetLog(last+1) while single-entry batches are appended) a large-entry phase (entries above the pooled 64 KiB read buffer read by 8 goroutines at once) and a reopened phase (sealed segments read through the readers Open creates, by 8 goroutines at once); all under the race detector; non-trivial = distinct (read kind, overlapping writer op kind, parked-at point) triples with >= 2 candidate versions",
		"reads", "overlap_triples")
	c.Assume("tickets order events only when one completes before the other starts; candidate version sets are supersets of the truth")
	points := []string{"acquireState.loaded", "GetLog.acquired", "offsetForFrame.checked", "readFrame.beforeRead", "FirstIndex.checked", "LastIndex.checked", "writer.loadCommitIdx", "writer.loadOffsets"}
	wkinds := []string{"append", "append-seal", "delete-head", "delete-tail", "reappend", "delete-all", "reset"}
	reps := 1
	if !quick(c) {
		reps = 8
	}
	i := int64(0)
	for r := 0; r < reps; r++ {
		for _, real := range []bool{false, true} {
			for _, p := range points {
				for _, wk := range wkinds {
					rk := "get"
					if p == "FirstIndex.checked" {
						rk = "first"
					} else if p == "LastIndex.checked" {
						rk = "last"
					}
					if real && r == 0 && quick(c) && (wk == "append" || wk == "delete-all") {
						continue
					}
					i++
					c06Directed(c, p, wk, rk, real, c.Seed*1009+i)
					if p == "acquireState.loaded" && rk == "get" {
						i++
						c06Directed(c, p, wk, "first", real, c.Seed*1009+i)
						i++
						c06Directed(c, p, wk, "last", real, c.Seed*1009+i)
					}
				}
			}
		}
	}
	// stress
	ctl := sched.New()
	ctl.Perturb(c.Seed, 0.25)
	remove := ctl.Install()
	n := 60
	if !quick(c) {
		n = 3000
	}
	jobs := make(chan int64, 8)
	var wg sync.WaitGroup
	for w := 0; w < 4; w++ {
		wg.Add(1)
		go func() {
			defer wg.Done()
			for s := range jobs {
				c06Stress(c, s)
			}
		}()
	}
	for k := 0; k < n; k++ {
		jobs <- c.Seed*7919 + int64(k)
	}
	close(jobs)
	wg.Wait()
	remove()
	c.Extra("hook_hits_stress", ctl.Hits())
	if quick(c) {
		c06Reopened(c, c.Seed, 400)
	} else {
		for k := int64(0); k < 10; k++ {
			c06Reopened(c, c.Seed*7+k, 3000)
		}
	}
	if quick(c) {
		c06Large(c, c.Seed, 150)
	} else {
		for k := int64(0); k < 6; k++ {
			c06Large(c, c.Seed*13+k, 600)
		}
	}
	if quick(c) {
		c06Follow(c, c.Seed, 20000)
	} else {
		for k := int64(0); k < 8; k++ {
			c06Follow(c, c.Seed*17+k, 100000)
		}
	}
}
