package checks

import (
	"fmt"
	"github.com/hashicorp/raft"
	wal "github.com/hashicorp/raft-wal"
	"math/rand"
	"runtime"
	"sync"
	"verif/internal/drv"
	"verif/internal/simfs"

	"verif/internal/evid"
	"verif/internal/vsim"
)

func init() {
	register("C16", &Check{Level: "exploration", Run: runC16})
}

// c16History runs one random multi-node history without any corruption and
// judges every delivered report.
func c16History(c *evid.Ctx, seed int64) { c16HistoryMode(c, seed, false) }

// c16HistoryMode: blameOnly is used by C17, whose second sentence (a report blames in-flight
// corruption only when the node really wrote something else) is about these same clean histories.
func c16HistoryMode(c *evid.Ctx, seed int64, blameOnly bool) {
	rng := rand.New(rand.NewSource(seed))
	nn := 3 + rng.Intn(3)
	var cl *vsim.Cluster
	if seed%4 == 1 {
		// the middleware over the real WAL (its codec, its readers) instead of raft.InmemStore
		var wals []*wal.WAL
		cl = vsim.NewClusterOver(rng, nn, func() raft.LogStore {
			w, err := drv.OpenSim(simfs.New(simfs.Strict), drv.Cfg{SegSize: 2048})
			if err != nil {
				panic(err)
			}
			wals = append(wals, w)
			return w
		})
		defer func() {
			for _, w := range wals {
				drv.CloseWAL(w)
			}
		}()
		c.Count("histories_over_real_wal", 1)
	} else {
		cl = vsim.NewCluster(rng, nn)
	}
	defer cl.Close()
	steps := 25 + rng.Intn(50)
	if seed%2 == 0 {
		cl.FailProb = 0.08
	}
	if seed%3 == 0 {
		cl.ForeignCPProb = 0.12
	}
	defer func() {
		c.Count("foreign_checkpoints_refused", int64(cl.ForeignRefused))
		c.Count("foreign_checkpoints_accepted", int64(cl.ForeignAccepted))
	}()
	// flags per node: what happened since the node's previous checkpoint
	type flags struct{ tail, restart, leader, head, appendfail bool }
	fl := make([]flags, len(cl.Nodes))
	judge := func() bool {
		if !cl.QuiesceAll() {
			c.Inconclusive("history %d: a node did not quiesce within the watchdog", seed)
			return false
		}
		for ni, n := range cl.Nodes {
			if cl.FailedOn[ni] {
				fl[ni].appendfail = true
				delete(cl.FailedOn, ni)
			}
			for _, r := range n.TakeReports() {
				j := cl.Judge(n, r)
				c.Count("reports", 1)
				role := "follower"
				if j.CP != nil && j.CP.Leader == n.Name {
					role = "leader"
				}
				ctx := fmt.Sprintf("%s|tail=%v|restart=%v|leaderchange=%v|head=%v|appendfail=%v", role, fl[ni].tail, fl[ni].restart, fl[ni].leader, fl[ni].head, fl[ni].appendfail)
				switch {
				case r.Err == nil:
					c.Count("reports_ok", 1)
				case j.RangeErr:
					c.Count("reports_range_mismatch", 1)
				case j.Mismatch:
					c.Count("reports_checksum_mismatch", 1)
				default:
					c.Count("reports_other_error", 1)
				}
				if !j.Known {
					c.Count("reports_without_ground_truth", 1)
					fl[ni] = flags{}
					continue
				}
				c.Count("checkpoints_judged", 1)
				c.Distinct("contexts", ctx+fmt.Sprintf("|holds=%v", j.Holds))
				replay := map[string]any{"seed": seed, "node": n.Name, "range": r.Range.String(), "events": tail(cl.Events, 40), "err": fmt.Sprint(r.Err)}
				if blameOnly {
					if j.Holds && j.Equal && j.Mismatch && j.InFlight {
						c.Violation("C17:in-flight-blamed-wrongly:clean-history:"+role, fmt.Sprintf("node %s wrote exactly what leader %s checksummed for range %s, yet its report blames in-flight corruption: %v (context %s)", n.Name, j.CP.Leader, r.Range, r.Err, ctx), replay)
					}
					c.Count("clean_history_reports_checked_for_blame", 1)
					fl[ni] = flags{}
					continue
				}
				if j.Holds && j.Equal && j.Mismatch {
					blame := "storage"
					if j.InFlight {
						blame = "in-flight"
					}
					c.Violation("C16:false-mismatch:"+blame+":"+role, fmt.Sprintf("node %s holds range %s exactly as leader %s wrote it, yet the report says: %v (context %s)", n.Name, r.Range, j.CP.Leader, r.Err, ctx), replay)
				}
				if !j.Holds && j.Mismatch {
					c.Violation("C16:mismatch-instead-of-range-mismatch", fmt.Sprintf("node %s lacks part of range %s but the report says %v instead of ErrRangeMismatch", n.Name, r.Range, r.Err), replay)
				}
				if !j.Holds && !j.RangeErr && !j.Mismatch {
					c.Violation("C16:missing-range-not-reported", fmt.Sprintf("node %s lacks part of range %s but the report carries %v, want ErrRangeMismatch", n.Name, r.Range, r.Err), replay)
				}
				if j.Holds && j.Equal && r.Err != nil && !j.Mismatch {
					c.Count("reports_unexpected_nonmismatch_error", 1)
				}
				fl[ni] = flags{}
			}
		}
		return true
	}
	for s := 0; s < steps; s++ {
		switch x := rng.Intn(100); {
		case x < 40:
			k := 1 + rng.Intn(6)
			cp := map[int]bool{}
			if rng.Intn(3) > 0 {
				cp[rng.Intn(k)] = true
			}
			if rng.Intn(8) == 0 && k > 1 {
				cp[rng.Intn(k)] = true
			}
			if err := cl.LeaderAppend(k, cp); err != nil {
				c.Violation("C16:store-error", err.Error(), map[string]any{"seed": seed, "events": tail(cl.Events, 30)})
				return
			}
		case x < 70:
			fi := rng.Intn(len(cl.Nodes))
			ld := cl.Nodes[cl.Leader]
			if ld.Truth.Empty() {
				continue
			}
			upto := ld.Truth.First + uint64(rng.Intn(int(ld.Truth.Last-ld.Truth.First+1)))
			if rng.Intn(2) == 0 {
				upto = ld.Truth.Last
			}
			before := cl.NTailTrunc
			if err := cl.Replicate(fi, upto, nil); err != nil {
				c.Violation("C16:store-error", err.Error(), map[string]any{"seed": seed, "events": tail(cl.Events, 30)})
				return
			}
			if cl.NTailTrunc > before {
				fl[fi].tail = true
			}
		case x < 80:
			ni := rng.Intn(len(cl.Nodes))
			if ni != cl.Leader {
				cl.ChangeLeader(ni)
				for i := range fl {
					fl[i].leader = true
				}
			}
		case x < 90:
			ni := rng.Intn(len(cl.Nodes))
			if !judge() {
				return
			}
			cl.Nodes[ni].Restart()
			cl.NRestart++
			fl[ni].restart = true
		default:
			ni := rng.Intn(len(cl.Nodes))
			n := cl.Nodes[ni]
			if n.Truth.Len() > 3 {
				k := uint64(1 + rng.Intn(n.Truth.Len()-2))
				if !judge() {
					return
				}
				if err := n.Delete(n.Truth.First, n.Truth.First+k-1); err == nil {
					cl.NHeadTrunc++
					fl[ni].head = true
				}
			}
		}
		if !judge() {
			return
		}
	}
	c.Count("histories", 1)
	c.Count("tail_truncations", int64(cl.NTailTrunc))
	c.Count("restarts", int64(cl.NRestart))
	c.Count("leader_changes", int64(cl.NLeaderChange))
	c.Count("head_truncations", int64(cl.NHeadTrunc))
	c.Count("checkpoints", int64(cl.NCheckpoint))
	c.Count("refused_appends", int64(cl.NAppendFail))
	if seed%997 == 0 || c.Get("histories") <= 2 {
		c.Sample(map[string]any{"seed": seed, "nodes": len(cl.Nodes), "events": tail(cl.Events, 25)})
	}
}

func tail(s []string, n int) []string {
	if len(s) > n {
		return s[len(s)-n:]
	}
	return s
}

func runC16(c *evid.Ctx) {
	c.Rule("random multi-node histories (3-5 nodes, each the real verifier.LogStore over an InmemStore, a quarter of the histories over real WALs): leader appends with checkpoints, replication in arbitrary batch splits and lags, leadership changes with conflicting suffixes (follower tail truncation + re-append), middleware restarts, head truncations, and - in half of the histories - appends refused now and then by a node's underlying store (a follower's batch is re-sent with a new split, a leader steps down), so that the stores still end up holding exactly what the leaders wrote; no corruption is injected; every delivered report is judged against the harness's ground truth of what the checkpoint's leader held; non-trivial = distinct (role, what preceded the checkpoint on that node: tail truncation / restart / leader change / head truncation / refused append, range held or not)",
		"checkpoints_judged", "contexts")
	c.Assume("ranges are not modified while their verification runs (the driver waits, by metric counts, for each report before the next step)", "FNV-1a collisions not searched for")
	n := 1500
	if !quick(c) {
		n = 150000
	}
	jobs := make(chan int64, 64)
	var wg sync.WaitGroup
	for i := 0; i < runtime.NumCPU(); i++ {
		wg.Add(1)
		go func() {
			defer wg.Done()
			for s := range jobs {
				c16History(c, s)
			}
		}()
	}
	for i := 0; i < n; i++ {
		jobs <- c.Seed*1000003 + int64(i)
	}
	close(jobs)
	wg.Wait()
}
