package checks

import (
	"verif/internal/crashsim"
	"verif/internal/gen"
)

func genBrief(wl *crashsim.Workload) []string { return gen.Brief(wl.Ops) }
