package checks

import (
	"bytes"
	"fmt"
	"math/rand"
	"time"

	"github.com/hashicorp/raft"

	"verif/internal/drv"
	"verif/internal/evid"
	"verif/internal/gen"
	"verif/internal/model"
	"verif/internal/simfs"
)

// snapAt takes one snapshot right after the n-th WriteAt (counted from arming).
type c02SnapAt struct {
	armed bool
	nth   int
	seen  int
	snap  *simfs.Snapshot
}

func (h *c02SnapAt) Pre(d *simfs.Disk, cl simfs.Call) error { return nil }
func (h *c02SnapAt) Mid(d *simfs.Disk, cl simfs.Call)       {}
func (h *c02SnapAt) Post(d *simfs.Disk, cl simfs.Call) error {
	if h.armed && cl.Kind == simfs.KWriteAt {
		h.seen++
		if h.seen == h.nth && h.snap == nil {
			h.snap = d.SnapshotLocked()
		}
	}
	return nil
}

// c02Pieces labels every pending 8-byte piece with the write it belongs to (issue order)
// and with a running number of its (write, 512-byte sector) group.
func c02Pieces(s *simfs.Snapshot) (write, group []int, nWrites, nGroups int) {
	ps := s.PendingInfo().Pieces
	write, group = make([]int, len(ps)), make([]int, len(ps))
	w, g := -1, -1
	lastSector := int64(-1)
	var prevEnd int64 = -1
	prevIno := -1
	for i, p := range ps {
		if p.Ino != prevIno || p.Off != prevEnd {
			w++
			lastSector = -1
		}
		if sec := p.Off / 512; sec != lastSector {
			g++
			lastSector = sec
		}
		write[i], group[i] = w, g
		prevEnd = p.Off + int64(len(p.Data))
		prevIno = p.Ino
	}
	return write, group, w + 1, g + 1
}

// c02DirectedChains: the two-crash chain spelled out. Entries 1..2 are acknowledged. A batch
// T0 (three entries) is in flight when power fails, with any subset of its sectors on disk;
// the WAL recovers; a shorter batch T1 for the same indexes is in flight when power fails
// again, with any combination of "which pending write reached which sector" (recovery's
// zeroing of T0's leftovers, T1's own bytes). After the second recovery the log must be
// exactly 1..2 or 1..2+T1: never T0's entries, never a torn mixture.
func c02DirectedChains(c *evid.Ctx) {
	// entries of fixed shape (only Data varies), so that a payload 8 bytes shorter makes the
	// frame 8 bytes - one commit frame - shorter: T1's commit frame then ends exactly on a frame
	// boundary of T0 and T0's later frames (and commit) parse right behind it
	sizes := [][2][]int{{{1500, 1500, 1500}, {1492}}, {{1500, 600, 1500}, {1500, 592}}, {{500, 500, 500}, {492}}}
	if !quick(c) {
		sizes = append(sizes, [2][]int{{2000, 200, 600}, {1992}}, [2][]int{{1200, 1200, 1200}, {1200, 1192}}, [2][]int{{1000, 40, 40}, {992}}, [2][]int{{400, 420, 380}, {300, 410}})
	}
	mk := func(idx uint64, tag byte, n int) *raft.Log {
		return &raft.Log{Index: idx, Term: 2, Type: raft.LogCommand, Data: bytes.Repeat([]byte{tag}, n), AppendedAt: time.Unix(1700000000, 0).UTC()}
	}
	rng := rand.New(rand.NewSource(c.Seed))
	for _, sz := range sizes {
		disk := simfs.New(simfs.Strict)
		h := &c02SnapAt{}
		disk.SetHook(h)
		w, err := drv.OpenSim(disk, drv.Cfg{SegSize: 16384})
		if err != nil {
			c.Violation("C02:open", err.Error(), nil)
			return
		}
		l := model.NewLog()
		pre := []*raft.Log{gen.Entry(rng, 1, "p", 100), gen.Entry(rng, 2, "p", 120)}
		if err := w.StoreLogs(pre); err != nil {
			c.Violation("C02:append", err.Error(), nil)
			return
		}
		l.Append(pre, 0, true)
		var t0 []*raft.Log
		for i, s := range sz[0] {
			t0 = append(t0, mk(3+uint64(i), byte('A'+i), s))
		}
		h.armed, h.nth, h.seen, h.snap = true, 1, 0, nil
		w.StoreLogs(t0)
		h.armed = false
		s0 := h.snap
		drv.CloseWAL(w)
		if s0 == nil {
			continue
		}
		_, g0, _, n0 := c02Pieces(s0)
		// first crash: which sectors of T0 reached the disk
		var masks0 []uint64
		if n0 <= 8 && !quick(c) {
			for m := uint64(0); m < 1<<uint(n0); m++ {
				masks0 = append(masks0, m)
			}
		} else {
			all := uint64(1)<<uint(n0) - 1
			masks0 = []uint64{all &^ 1, all &^ 3, all &^ 2, 1 << uint(n0-1), all >> 1, 0}
			// holes: exactly one sector (or two adjacent ones) of T0 missing, everything before
			// and after it on disk - the frame walk of the first recovery stops at the hole, the
			// sectors behind it are what a bounded clean-up would leave
			for j := 1; j+1 < n0; j++ {
				masks0 = append(masks0, all&^(1<<uint(j)))
				if j+2 < n0 && j%2 == 1 {
					masks0 = append(masks0, all&^(3<<uint(j)))
				}
			}
			extra := 6
			if !quick(c) {
				extra = 60
			}
			for k := 0; k < extra; k++ {
				masks0 = append(masks0, rng.Uint64()&all)
			}
		}
		for _, m0 := range masks0 {
			keep0 := func(i, n int) bool { return m0&(1<<uint(g0[i])) != 0 }
			img := s0.Image(simfs.Variant{KeepPiece: keep0, Name: fmt.Sprintf("m0=%b", m0)})
			h1 := &c02SnapAt{}
			img.SetHook(h1)
			w1, err := drv.OpenSim(img, drv.Cfg{SegSize: 16384})
			if err != nil {
				c.Violation("C02:directed-chain:open-after-first-crash", fmt.Sprintf("Open failed after the first power loss (mask %b): %v", m0, err), map[string]any{"sizes": sz, "m0": m0})
				continue
			}
			last, _ := w1.LastIndex()
			if last != 2 {
				// T0 survived in full (legal) or something else: judged by the E1 engine, not here
				c.Count(fmt.Sprintf("directed_chain_first_recovery_last=%d", last), 1)
				drv.CloseWAL(w1)
				continue
			}
			var t1 []*raft.Log
			for i, s := range sz[1] {
				t1 = append(t1, mk(3+uint64(i), byte('p'+i), s))
			}
			h1.armed, h1.nth, h1.seen, h1.snap = true, 1, 0, nil
			w1.StoreLogs(t1)
			h1.armed = false
			s1 := h1.snap
			drv.CloseWAL(w1)
			if s1 == nil {
				c.Count("directed_chain_no_second_snapshot", 1)
				continue
			}
			w1ids, g1, nw1, ng1 := c02Pieces(s1)
			// second crash: every earlier pending write (recovery's zeroing of T0's leftovers)
			// reached the disk as a whole or not at all; T1's own write sector by sector
			firstT1Group := ng1
			for i := range g1 {
				if w1ids[i] == nw1-1 && g1[i] < firstT1Group {
					firstT1Group = g1[i]
				}
			}
			nT1 := ng1 - firstT1Group
			if nT1 > 8 {
				nT1 = 8
			}
			nBits := (nw1 - 1) + nT1
			if nBits > 10 {
				nBits = 10
			}
			lt1 := l.Clone()
			lt1.Append(t1, 1, true)
			c.Count("directed_chain_second_crash_bits", int64(nBits))
			for m1 := 0; m1 < 1<<uint(nBits); m1++ {
				keep1 := func(i, n int) bool {
					bit := w1ids[i]
					if w1ids[i] == nw1-1 {
						bit = (nw1 - 1) + (g1[i] - firstT1Group)
					}
					if bit >= nBits {
						bit = nBits - 1
					}
					return m1&(1<<uint(bit)) != 0
				}
				img2 := s1.Image(simfs.Variant{KeepPiece: keep1})
				w2, err := drv.OpenSim(img2, drv.Cfg{SegSize: 16384})
				c.Count("directed_chain_images", 1)
				c.Count("images", 1)
				replay := map[string]any{"sizes": sz, "first_crash_mask": fmt.Sprintf("%b", m0), "second_crash_mask": fmt.Sprintf("%b", m1)}
				if err != nil {
					c.Violation("C02:directed-chain:open-after-second-crash", fmt.Sprintf("Open failed after the second power loss: %v", err), replay)
					continue
				}
				obs := drv.Observe(w2, model.ProbeSet([]uint64{3, 4, 5, 6}, l, lt1))
				drv.CloseWAL(w2)
				if d0, d1 := l.Diff(obs), lt1.Diff(obs); d0 != "" && d1 != "" {
					c.Violation("C02:directed-chain:torn-or-stale-batch", fmt.Sprintf("after crash (T0 torn) -> recover -> shorter T1 for the same indexes torn by a second crash -> recover, the log is neither 1..2 (%s) nor 1..2+T1 (%s)", d0, d1), replay)
				}
				if m0 != 0 && m1 != 0 && m1 != (1<<uint(nBits))-1 {
					c.Distinct("c02_nontrivial", fmt.Sprintf("chain|%v|%b|%b", sz[0], m0, m1))
				}
			}
		}
	}
}
