package checks

import (
	"fmt"
	"math/rand"
	"os"
	"os/exec"
	"path/filepath"
	"runtime"
	"strconv"
	"strings"
	"sync"
	"sync/atomic"
	"syscall"
	"time"
	"verif/internal/sched"

	"github.com/hashicorp/go-hclog"
	"github.com/hashicorp/raft"
	wal "github.com/hashicorp/raft-wal"
	"github.com/hashicorp/raft-wal/fs"
	"github.com/hashicorp/raft-wal/segment"
	"github.com/hashicorp/raft-wal/types"

	"verif/internal/drv"
	"verif/internal/evid"
	"verif/internal/gen"
	"verif/internal/hooks"
	"verif/internal/proc"
)

func init() {
	register("C07", &Check{Level: "exploration", Run: runC07})
	Children["c07-workload"] = c07Child
}

// ---------------- child side ----------------

type c07Marker struct {
	f  *os.File
	mu sync.Mutex
}

func (m *c07Marker) mark(format string, a ...any) {
	m.mu.Lock()
	m.f.Write([]byte(fmt.Sprintf(format, a...) + "\n"))
	m.mu.Unlock()
}

// c07VFS wraps the production fs.FS only to emit markers and to self-kill.
type c07VFS struct {
	inner   *fs.FS
	m       *c07Marker
	calls   int
	killAt  int // self-SIGKILL right before the killAt-th mutating VFS call (0 = never)
	killCre int // self-SIGKILL right after the killCre-th Create returned
	creates int
	// killFirstSync: self-SIGKILL right before the n-th "first Sync of a newly
	// created file" (the batch is written, neither file nor directory fsynced yet)
	killFirstSync int
	firstSyncs    int
	mu            sync.Mutex
}

func (v *c07VFS) step() {
	v.mu.Lock()
	v.calls++
	n := v.calls
	v.mu.Unlock()
	if v.killAt > 0 && n == v.killAt {
		v.m.mark("SELFKILL before vfs call %d", n)
		syscall.Kill(os.Getpid(), syscall.SIGKILL)
		select {}
	}
}

func (v *c07VFS) ListDir(dir string) ([]string, error) { return v.inner.ListDir(dir) }
func (v *c07VFS) Create(dir, name string, size uint64) (types.WritableFile, error) {
	v.step()
	v.m.mark("VFS BEGIN create %s %d", name, size)
	f, err := v.inner.Create(dir, name, size)
	if err != nil {
		v.m.mark("VFS END create %s err=%v", name, err)
		return nil, err
	}
	// independent check of what Create promises: exact size, all zeros
	st, serr := os.Stat(filepath.Join(dir, name))
	zero := true
	if serr == nil {
		buf := make([]byte, st.Size())
		n, _ := f.ReadAt(buf, 0)
		for _, b := range buf[:n] {
			if b != 0 {
				zero = false
			}
		}
		v.m.mark("VFS END create %s size=%d zero=%v", name, st.Size(), zero)
	} else {
		v.m.mark("VFS END create %s staterr=%v", name, serr)
	}
	v.mu.Lock()
	v.creates++
	c := v.creates
	v.mu.Unlock()
	if v.killCre > 0 && c == v.killCre {
		v.m.mark("SELFKILL after create %d", c)
		syscall.Kill(os.Getpid(), syscall.SIGKILL)
		select {}
	}
	return &c07File{WritableFile: f, v: v, name: name, fresh: true}, nil
}
func (v *c07VFS) Delete(dir, name string) error {
	v.step()
	v.m.mark("VFS BEGIN delete %s", name)
	err := v.inner.Delete(dir, name)
	v.m.mark("VFS END delete %s err=%v", name, err)
	return err
}
func (v *c07VFS) OpenReader(dir, name string) (types.ReadableFile, error) {
	return v.inner.OpenReader(dir, name)
}
func (v *c07VFS) OpenWriter(dir, name string) (types.WritableFile, error) {
	f, err := v.inner.OpenWriter(dir, name)
	if err != nil {
		return nil, err
	}
	return &c07File{WritableFile: f, v: v, name: name}, nil
}

type c07File struct {
	types.WritableFile
	v     *c07VFS
	name  string
	fresh bool // created by this process and not synced yet
}

func (f *c07File) WriteAt(p []byte, off int64) (int, error) {
	f.v.step()
	return f.WritableFile.WriteAt(p, off)
}
func (f *c07File) Sync() error {
	if f.fresh {
		f.fresh = false
		f.v.mu.Lock()
		f.v.firstSyncs++
		n := f.v.firstSyncs
		f.v.mu.Unlock()
		if f.v.killFirstSync > 0 && n == f.v.killFirstSync {
			f.v.m.mark("SELFKILL before first sync %d of %s", n, f.name)
			syscall.Kill(os.Getpid(), syscall.SIGKILL)
			select {}
		}
	}
	f.v.step()
	f.v.m.mark("VFS BEGIN sync %s", f.name)
	err := f.WritableFile.Sync()
	f.v.m.mark("VFS END sync %s err=%v", f.name, err)
	return err
}

// c07Child: args = dir markers seed nops killAt killCre killHook
func c07Child(args []string) {
	if os.Getenv("C07_LOCK_THREAD") != "" {
		// strace counts "when=N" per thread: keep every syscall of the main goroutine (all
		// StoreLogs / DeleteRange / Open calls) on one thread so that the injected failures
		// fall on a reproducible subsequence of its fsyncs
		runtime.LockOSThread()
	}
	dir, markers := args[0], args[1]
	if rel := os.Getenv("C07_RELDIR"); rel != "" {
		// the WAL directory named relative to the working directory ("." or "./"), as a
		// program started inside its data directory would
		if err := os.Chdir(dir); err != nil {
			os.Exit(6)
		}
		dir = rel
	}
	seed, _ := strconv.ParseInt(args[2], 10, 64)
	nops, _ := strconv.Atoi(args[3])
	killAt, _ := strconv.Atoi(args[4])
	killCre, _ := strconv.Atoi(args[5])
	killHook := args[6]
	killFirstSync := 0
	if len(args) > 7 {
		killFirstSync, _ = strconv.Atoi(args[7])
	}
	mf, err := os.OpenFile(markers, os.O_CREATE|os.O_WRONLY|os.O_APPEND, 0o644)
	if err != nil {
		os.Exit(5)
	}
	m := &c07Marker{f: mf}
	// "@pinned" scenario: the goroutine whose release of an old state deletes a segment file
	// is held right after that Delete's directory fsync
	var holdDir atomic.Bool
	var heldGid atomic.Int64
	dirHeld, dirRelease := make(chan struct{}), make(chan struct{})
	hk := func(point string, arg any) {
		if point == "fs.fsync.dir" && holdDir.Load() && sched.Goid() == heldGid.Load() {
			holdDir.Store(false)
			m.mark("HOOK %s", point)
			close(dirHeld)
			<-dirRelease
			return
		}
		if strings.HasPrefix(point, "fs.fsync") || strings.HasPrefix(point, "meta.") {
			m.mark("HOOK %s", point)
		}
		if killHook != "-" && point == killHook {
			m.mark("SELFKILL at hook %s", point)
			syscall.Kill(os.Getpid(), syscall.SIGKILL)
			select {}
		}
	}
	hooks.OnFS(hk)
	hooks.OnMeta(hk)
	vfs := &c07VFS{inner: fs.New(), m: m, killAt: killAt, killCre: killCre, killFirstSync: killFirstSync}
	open := func(n int) *wal.WAL {
		m.mark("BEGIN %d open", n)
		w, err := wal.Open(dir, wal.WithSegmentFiler(segment.NewFiler(dir, vfs)), wal.WithSegmentSize(512), wal.WithLogger(hclog.NewNullLogger()))
		if err != nil {
			m.mark("ACK %d open err=%v", n, err)
			os.Exit(6)
		}
		m.mark("ACK %d open ok", n)
		return w
	}
	w := open(0)
	rng := rand.New(rand.NewSource(seed))
	first, _ := w.FirstIndex()
	last, _ := w.LastIndex()
	if killHook == "@pinned" {
		// A reader pins the current state; a head truncation drops the first segment; the
		// reader's release runs the finalizer (unlink + directory fsync) on the reader's
		// goroutine, which is held right after that fsync while the writer rotates into a new
		// segment file and commits into it for the first time. The directory fsync made by the
		// Delete began before the new file existed, so it does not cover it.
		n := 1000
		app := func(k, size int) {
			next := last + 1
			var logs []*raft.Log
			for i := 0; i < k; i++ {
				logs = append(logs, gen.Entry(rng, next+uint64(i), "p", size))
			}
			n++
			m.mark("BEGIN %d append", n)
			if err := w.StoreLogs(logs); err == nil {
				m.mark("ACK %d append ok", n)
				if last == 0 {
					first = next
				}
				last = next + uint64(k) - 1
			} else {
				m.mark("ACK %d append err=%v", n, err)
			}
			hooks.WaitRotation(w, drv.Watchdog)
		}
		for i := 0; i < 6; i++ {
			app(2, 120)
		}
		ctl := sched.New()
		rm := ctl.Install()
		p1 := ctl.ParkAt("reader", "GetLog.acquired", 0)
		readerDone := make(chan struct{})
		go func() {
			defer close(readerDone)
			ctl.Tag("reader")
			heldGid.Store(sched.Goid())
			var l raft.Log
			w.GetLog(first, &l)
		}()
		if p1.WaitReached(20 * time.Second) {
			n++
			m.mark("BEGIN %d delete-head", n)
			err := w.DeleteRange(first, first+5)
			m.mark("ACK %d delete-head %s", n, okErr(err))
			if err == nil {
				first += 6
			}
			holdDir.Store(true)
			p1.Release()
			select {
			case <-dirHeld:
				m.mark("PINNED delete held after its directory fsync")
			case <-time.After(20 * time.Second):
				m.mark("PINNED delete not reached")
			}
			// append until a rotation has created the next segment file, then let the Delete
			// return, and only then commit into the new file for the first time
			_, rot0, _ := hooks.Rotations(w)
			for i := 0; i < 8; i++ {
				app(2, 120)
				if _, r, _ := hooks.Rotations(w); r > rot0 {
					break
				}
			}
			holdDir.Store(false)
			close(dirRelease)
			<-readerDone
			app(2, 120)
			app(2, 120)
		} else {
			p1.Release()
			m.mark("PINNED reader not parked")
		}
		<-readerDone
		rm()
	}
	for n := 1; n <= nops; n++ {
		if killHook == "@swapdir" && n == nops/2 {
			// restore-style swap inside one process: the WAL directory is moved away and a new,
			// empty directory is created under the same path; directory fsyncs must go to the
			// directory that is there now
			m.mark("BEGIN %d close", n)
			w.Close()
			m.mark("ACK %d close ok", n)
			if err := os.Rename(dir, dir+".old"); err != nil || os.Mkdir(dir, 0o755) != nil {
				m.mark("SWAP failed")
				os.Exit(8)
			}
			m.mark("SWAPPED directory")
			w = open(n)
			first, last = 0, 0
		}
		x := rng.Intn(100)
		switch {
		case x < 62 || last == 0:
			next := last + 1
			if last == 0 && rng.Intn(3) == 0 {
				next = uint64(10 + rng.Intn(90))
			}
			k := 1 + rng.Intn(3)
			var logs []*raft.Log
			for i := 0; i < k; i++ {
				logs = append(logs, gen.Entry(rng, next+uint64(i), "t", 30+rng.Intn(200)))
			}
			m.mark("BEGIN %d append", n)
			err := w.StoreLogs(logs)
			if err == nil {
				m.mark("ACK %d append ok", n)
				if last == 0 {
					first = next
				}
				last = next + uint64(k) - 1
			} else {
				m.mark("ACK %d append err=%v", n, err)
			}
		case x < 72 && last > first+1:
			mx := first + uint64(rng.Intn(int(min(4, last-first))))
			m.mark("BEGIN %d delete-head", n)
			err := w.DeleteRange(first, mx)
			m.mark("ACK %d delete-head %s", n, okErr(err))
			if err == nil {
				first = mx + 1
			}
		case x < 82 && last > first+1:
			mn := last - uint64(rng.Intn(int(min(4, last-first))))
			m.mark("BEGIN %d delete-tail", n)
			err := w.DeleteRange(mn, last)
			m.mark("ACK %d delete-tail %s", n, okErr(err))
			if err == nil {
				last = mn - 1
			}
		case x < 86 && last > 0:
			m.mark("BEGIN %d delete-all", n)
			err := w.DeleteRange(first, last)
			m.mark("ACK %d delete-all %s", n, okErr(err))
			if err == nil {
				first, last = 0, 0
			}
		case x < 93:
			m.mark("BEGIN %d set", n)
			err := w.Set([]byte(fmt.Sprintf("k%d", rng.Intn(3))), []byte(fmt.Sprintf("v%d", n)))
			m.mark("ACK %d set %s", n, okErr(err))
		default:
			m.mark("BEGIN %d close", n)
			w.Close()
			m.mark("ACK %d close ok", n)
			w = open(n)
		}
		// let the background rotation finish so that its I/O is not interleaved with the next call
		hooks.WaitRotation(w, drv.Watchdog)
	}
	m.mark("BEGIN %d close", nops+1)
	w.Close()
	m.mark("ACK %d close ok", nops+1)
}

func okErr(err error) string {
	if err == nil {
		return "ok"
	}
	return "err=" + err.Error()
}

// ---------------- parent side: the trace monitor ----------------

type c07FileState struct {
	created   bool
	dirSynced bool
	createEnd int
	unsynced  []*proc.Event
	fallocOK  bool
}

type c07Monitor struct {
	c        *evid.Ctx
	dir      string
	files    map[string]*c07FileState // *.wal and wal-meta.db(.tmp)
	metaSeen bool                     // wal-meta.db exists under its final name
	replay   map[string]any
	// windows
	opBegin                                                              map[string]int  // op number -> Start of BEGIN marker
	opTouched                                                            map[string]bool // wal files written since the current BEGIN
	delBegin                                                             map[string]int  // file -> position of VFS BEGIN delete
	unlinkAt                                                             map[string]int  // file -> End of its unlink
	dirSyncPos                                                           []int           // Start positions of successful dir fsyncs (paired with End)
	dirSyncEnd                                                           []int
	renamePos                                                            int
	nFileSync, nDirSyncFS, nHookFile, nHookDirFS, nHookDirMeta, nDirSync int
	offset                                                               int // line offset for concatenated lifetimes
	pendingCreateSize                                                    map[string]int64
	only                                                                 string // report only rules whose signature contains this
}

func (mo *c07Monitor) v(sig, desc string) {
	// the same monitor serves C08 (rule R7 only)
	if mo.only != "" {
		hit := false
		for _, o := range strings.Split(mo.only, "|") {
			if strings.Contains(sig, o) {
				hit = true
			}
		}
		if !hit {
			mo.c.Count("signals_for_other_properties", 1)
			return
		}
	}
	if strings.HasPrefix(sig, "C07:") && mo.c.ID != "C07" {
		sig = mo.c.ID + sig[3:]
	}
	mo.c.Violation(sig, desc, mo.replay)
}

func (mo *c07Monitor) isWal(p string) bool {
	return strings.HasPrefix(p, mo.dir+"/") && strings.HasSuffix(p, ".wal")
}

func (mo *c07Monitor) fileOf(p string) *c07FileState {
	f := mo.files[p]
	if f == nil {
		f = &c07FileState{}
		mo.files[p] = f
	}
	return f
}

func (mo *c07Monitor) dirSyncedBetween(after, before int) bool {
	for i := range mo.dirSyncPos {
		if mo.dirSyncPos[i] > after && mo.dirSyncEnd[i] < before {
			return true
		}
	}
	return false
}

// feed processes the events of one process lifetime.
func (mo *c07Monitor) feed(evs []*proc.Event) {
	c := mo.c
	metaFinal := mo.dir + "/wal-meta.db"
	metaTmp := metaFinal + ".tmp"
	for _, e := range evs {
		e.Start += mo.offset
		e.End += mo.offset
		c.Count("syscalls_"+e.Name, 1)
		switch e.Name {
		case "openat":
			if e.Failed {
				continue
			}
			if mo.isWal(e.Path) && strings.Contains(e.Flags, "O_CREAT") {
				if !strings.Contains(e.Flags, "O_EXCL") {
					mo.v("C07:R4:create-not-exclusive", fmt.Sprintf("segment file %s opened for creation without O_EXCL (%s)", filepath.Base(e.Path), e.Flags))
				}
				f := mo.fileOf(e.Path)
				f.created, f.dirSynced, f.createEnd, f.unsynced, f.fallocOK = true, false, e.End, nil, false
				c.Count("segment_files_created", 1)
			}
			if e.Path == metaFinal && !mo.metaSeen {
				mo.v("C07:R5:meta-created-at-final-name", "wal-meta.db was opened/created under its final name before any rename put a complete file there")
				mo.metaSeen = true
			}
		case "fallocate", "ftruncate":
			if !e.Failed && mo.isWal(e.Path) {
				f := mo.fileOf(e.Path)
				if want, ok := mo.pendingCreateSize[e.Path]; ok && e.Len == want {
					f.fallocOK = true
				}
			}
		case "pwrite64":
			if e.Failed {
				continue
			}
			if mo.isWal(e.Path) || e.Path == metaFinal || e.Path == metaTmp {
				f := mo.fileOf(e.Path)
				f.unsynced = append(f.unsynced, e)
				if mo.isWal(e.Path) {
					mo.opTouched[e.Path] = true
				}
			}
		case "fsync", "fdatasync":
			if e.Failed {
				continue
			}
			if e.Path == mo.dir {
				mo.nDirSync++
				mo.dirSyncPos = append(mo.dirSyncPos, e.Start)
				mo.dirSyncEnd = append(mo.dirSyncEnd, e.End)
				for _, f := range mo.files {
					if f.created && f.createEnd < e.Start {
						f.dirSynced = true
					}
				}
				continue
			}
			if f := mo.files[e.Path]; f != nil {
				var keep []*proc.Event
				for _, w := range f.unsynced {
					if w.End > e.Start { // written after this fsync began: not covered
						keep = append(keep, w)
					}
				}
				f.unsynced = keep
			}
			if mo.isWal(e.Path) {
				mo.nFileSync++
			}
		case "unlink":
			if !e.Failed && mo.isWal(e.Path) {
				mo.unlinkAt[e.Path] = e.End
				delete(mo.files, e.Path)
				c.Count("segment_files_deleted", 1)
			}
		case "rename":
			if e.Failed {
				continue
			}
			if e.Path2 == metaFinal {
				if e.Path != metaTmp {
					mo.v("C07:R5:meta-renamed-from-elsewhere", "wal-meta.db was renamed into place from "+e.Path)
				}
				if f := mo.files[metaTmp]; f != nil && len(f.unsynced) > 0 {
					mo.v("C07:R5:tmp-not-synced-before-rename", fmt.Sprintf("%d writes to wal-meta.db.tmp were not followed by fsync/fdatasync before it was renamed into place", len(f.unsynced)))
				}
				mo.metaSeen = true
				mo.renamePos = e.End
				mo.files[metaFinal] = &c07FileState{}
				delete(mo.files, metaTmp)
				c.Distinct("rule_paths", "R5|meta-init")
			}
		case "marker":
			mo.marker(e)
		}
	}
}

func (mo *c07Monitor) marker(e *proc.Event) {
	c := mo.c
	f := strings.Fields(e.Marker)
	if len(f) < 2 {
		return
	}
	metaFinal := mo.dir + "/wal-meta.db"
	switch f[0] {
	case "BEGIN":
		mo.opTouched = map[string]bool{}
	case "ACK":
		if len(f) < 4 {
			return
		}
		kind, res := f[2], f[3]
		if res != "ok" {
			return
		}
		c.Count("acked_operations_checked", 1)
		// R7: nothing written to the metadata DB may be un-synced at an acknowledgement
		// (not evaluated at an append's acknowledgement: the rotation it triggered runs in the
		// background from the moment StoreLogs releases its lock, so its metadata commit can
		// legitimately be in flight when the marker is written)
		if mf := mo.files[metaFinal]; kind != "append" && mf != nil && len(mf.unsynced) > 0 {
			mo.v("C07:R7:meta-write-not-synced:"+kind, fmt.Sprintf("at the acknowledgement of %s %d writes to wal-meta.db had not been followed by fdatasync", kind, len(mf.unsynced)))
			mf.unsynced = nil
		}
		switch kind {
		case "append":
			c.Count("acked_appends_checked", 1)
			for p := range mo.opTouched {
				st := mo.files[p]
				if st == nil {
					continue
				}
				path := "later-commit"
				if len(st.unsynced) > 0 {
					mo.v("C07:R1:append-acked-before-fsync", fmt.Sprintf("StoreLogs returned nil while %d writes to %s were not followed by an fsync of that file", len(st.unsynced), filepath.Base(p)))
					st.unsynced = nil
				}
				if st.created && !st.dirSynced {
					mo.v("C07:R2:first-commit-without-dir-fsync", fmt.Sprintf("StoreLogs returned nil for the first commit into %s but the directory was never fsynced since that file was created", filepath.Base(p)))
					st.dirSynced = true // report once
				}
				if st.created && st.createEnd > mo.opBeginPos() {
					path = "first-commit-same-op"
				}
				c.Distinct("rule_paths", "R1R2|"+path)
			}
		case "delete-tail":
			c.Distinct("rule_paths", "R1|force-seal-or-truncate")
			for p, st := range mo.files {
				if mo.isWal(p) && len(st.unsynced) > 0 {
					mo.v("C07:R1:truncate-acked-before-fsync", fmt.Sprintf("DeleteRange returned nil while writes to %s (force seal) were not followed by an fsync", filepath.Base(p)))
					st.unsynced = nil
				}
			}
		case "open":
			if mo.renamePos > 0 && !mo.dirSyncedBetween(mo.renamePos, e.Start) {
				mo.v("C07:R5:no-dir-fsync-after-rename", "wal-meta.db was renamed into place but the directory was not fsynced before Open returned")
			}
			mo.renamePos = 0
		}
	case "VFS":
		if len(f) < 4 {
			return
		}
		name := mo.dir + "/" + f[3]
		switch f[1] + " " + f[2] {
		case "BEGIN create":
			sz, _ := strconv.ParseInt(f[4], 10, 64)
			mo.pendingCreateSize[name] = sz
		case "END create":
			want := mo.pendingCreateSize[name]
			ok := false
			for _, kv := range f[4:] {
				if kv == fmt.Sprintf("size=%d", want) {
					ok = true
				}
				if kv == "zero=false" {
					mo.v("C07:R4:not-zero-filled", f[3]+" is not zero-filled after Create")
				}
				if strings.HasPrefix(kv, "err=") {
					return
				}
			}
			if !ok {
				mo.v("C07:R4:wrong-size", fmt.Sprintf("%s after Create: %v, requested size %d", f[3], f[4:], want))
			}
			if st := mo.files[name]; st != nil && !st.fallocOK {
				mo.v("C07:R4:not-preallocated", f[3]+" was created without an fallocate/ftruncate to the requested size")
			}
			c.Distinct("rule_paths", "R4|create")
		case "BEGIN delete":
			mo.delBegin[name] = e.End
		case "END delete":
			if len(f) > 4 && f[4] != "err=<nil>" {
				return
			}
			ua, ok := mo.unlinkAt[name]
			if !ok || ua < mo.delBegin[name] {
				mo.v("C07:R3:delete-without-unlink", f[3]+" was reported deleted but no unlink was seen")
				return
			}
			if !mo.dirSyncedBetween(ua, e.Start) {
				mo.v("C07:R3:delete-without-dir-fsync", f[3]+" was unlinked but the directory was not fsynced before Delete returned")
			}
			c.Count("deletes_checked", 1)
			c.Distinct("rule_paths", "R3|delete")
		}
	case "HOOK":
		switch f[1] {
		case "fs.fsync.file":
			mo.nHookFile++
			if mo.nHookFile > mo.nFileSync {
				mo.v("C07:R6:hook-without-fsync", "the fs package reported a file fsync (hook) that no fsync syscall on a segment file backs")
				mo.nFileSync = mo.nHookFile
			}
		case "fs.fsync.dir":
			mo.nHookDirFS++
		case "meta.fsync.dir":
			mo.nHookDirMeta++
		}
		if mo.nHookDirFS+mo.nHookDirMeta > mo.nDirSync {
			mo.v("C07:R6:hook-without-dir-fsync", "a directory fsync was reported by a hook but no fsync syscall on the directory backs it")
			mo.nDirSync = mo.nHookDirFS + mo.nHookDirMeta
		}
		c.Distinct("rule_paths", "R6|"+f[1])
	}
}

func (mo *c07Monitor) opBeginPos() int { return 0 }

// c07Scenario runs one directory through several process lifetimes under strace.
func c07Scenario(c *evid.Ctx, seed int64, kills []string, nops int, only ...string) {
	tmp, err := os.MkdirTemp("", "verif-c07-")
	if err != nil {
		c.Inconclusive("cannot create temp dir: %v", err)
		return
	}
	if os.Getenv("VERIF_KEEP") == "" {
		defer os.RemoveAll(tmp)
	} else {
		fmt.Println("keeping", tmp)
	}
	dir := filepath.Join(tmp, "wal")
	os.Mkdir(dir, 0o755)
	markers := filepath.Join(tmp, "markers")
	mo := &c07Monitor{c: c, dir: dir, files: map[string]*c07FileState{}, opBegin: map[string]int{}, opTouched: map[string]bool{},
		delBegin: map[string]int{}, unlinkAt: map[string]int{}, pendingCreateSize: map[string]int64{},
		replay: map[string]any{"seed": seed, "kills": kills, "ops_per_lifetime": nops}}
	if len(only) > 0 {
		mo.only = only[0]
	}
	for life, kill := range append(kills, "none") {
		killAt, killCre, killHook, killFS := "0", "0", "-", "0"
		switch {
		case strings.HasPrefix(kill, "firstsync:"):
			killFS = strings.TrimPrefix(kill, "firstsync:")
		case strings.HasPrefix(kill, "vfs:"):
			killAt = strings.TrimPrefix(kill, "vfs:")
		case strings.HasPrefix(kill, "create:"):
			killCre = strings.TrimPrefix(kill, "create:")
		case strings.HasPrefix(kill, "hook:"):
			killHook = strings.TrimPrefix(kill, "hook:")
		case kill == "pinned":
			killHook = "@pinned"
		case kill == "swapdir":
			killHook = "@swapdir"
		}
		inject := ""
		if strings.HasPrefix(kill, "inject:") {
			inject = strings.TrimPrefix(kill, "inject:")
		}
		logf := filepath.Join(tmp, fmt.Sprintf("trace%d.log", life))
		sargs := []string{"-f", "-y", "-s", "200", "-e", "trace=openat,pwrite64,fsync,fdatasync,unlinkat,unlink,renameat,renameat2,rename,fallocate,ftruncate,write,flock"}
		if inject != "" {
			// the kernel call fails with the injected error (strace fault injection): the
			// production code sees a failing fsync on the real filesystem
			sargs = append(sargs, "-e", "inject="+inject)
		}
		sargs = append(sargs, "-o", logf, os.Args[0], "-child", "c07-workload", dir, markers, fmt.Sprint(seed+int64(life)*977), fmt.Sprint(nops), killAt, killCre, killHook, killFS)
		cmd := exec.Command("strace", sargs...)
		if inject != "" {
			cmd.Env = append(os.Environ(), "C07_LOCK_THREAD=1")
		}
		if strings.HasPrefix(kill, "reldir:") {
			cmd.Env = append(os.Environ(), "C07_RELDIR="+strings.TrimPrefix(kill, "reldir:"))
		}
		out, err := cmd.CombinedOutput()
		res, perr := proc.Parse(logf, markers)
		if perr != nil || res == nil || len(res.Events) == 0 {
			c.Inconclusive("strace produced no usable trace (err=%v, parse=%v, output=%.200s)", err, perr, out)
			return
		}
		if len(res.Unparsed) > 0 {
			c.Inconclusive("trace has %d relevant lines the parser did not understand, e.g. %.120s", len(res.Unparsed), res.Unparsed[0])
			return
		}
		c.Count("lifetimes", 1)
		c.Count("trace_lines", int64(res.Lines))
		if inject != "" {
			// errors are expected in this lifetime (a failing Open ends it: exit 6)
			nf := 0
			for _, e := range res.Events {
				if (e.Name == "fsync" || e.Name == "fdatasync" || e.Name == "pwrite64" || e.Name == "fallocate") && e.Failed {
					nf++
				}
			}
			c.Count("injected_syscall_failures", int64(nf))
			if nf > 0 {
				c.Distinct("rule_paths", "R1R2|commit-after-a-failed-"+strings.SplitN(inject, ":", 2)[0])
			}
		} else if kill == "swapdir" {
			if err != nil {
				c.Violation("C07:child-failed", fmt.Sprintf("workload child failed: %v %.300s", err, out), mo.replay)
				return
			}
			c.Distinct("rule_paths", "R1R2|directory replaced under the same path in one process")
		} else if kill == "pinned" {
			if err != nil {
				c.Violation("C07:child-failed", fmt.Sprintf("workload child failed: %v %.300s", err, out), mo.replay)
				return
			}
			for _, e := range res.Events {
				if e.Name == "marker" && strings.HasPrefix(e.Marker, "PINNED delete held") {
					c.Count("pinned_delete_interleavings", 1)
					c.Distinct("rule_paths", "R2|first-commit-while-a-delete's-dir-fsync-is-in-flight")
				}
			}
		} else if kill != "none" {
			if res.Killed {
				c.Count("lifetimes_killed", 1)
				c.Distinct("rule_paths", "kill|"+strings.SplitN(kill, ":", 2)[0])
			} else {
				c.Count("kill_point_not_reached", 1)
			}
		} else if err != nil {
			c.Violation("C07:child-failed", fmt.Sprintf("workload child failed: %v %.300s", err, out), mo.replay)
			return
		}
		mo.feed(res.Events)
		mo.offset += res.Lines + 10
		// R5's directory fsync is demanded of the lifetime that did the rename only
		mo.renamePos = 0
		// metadata writes of a process that is gone are not part of any later acknowledgement
		if mf := mo.files[dir+"/wal-meta.db"]; mf != nil {
			mf.unsynced = nil
		}
		// a killed process's in-flight state: un-synced writes stay un-synced (they are in the page cache)
	}
	// R6 totals
	if mo.nHookFile != mo.nFileSync {
		mo.v("C07:R6:fsync-not-reported-by-hook", fmt.Sprintf("%d fsync syscalls on segment files but %d fs.fsync.file hook events (the hooks used to calibrate the simulated disk do not reflect the real syscalls)", mo.nFileSync, mo.nHookFile))
	}
	if mo.nHookDirFS+mo.nHookDirMeta != mo.nDirSync {
		mo.v("C07:R6:dir-fsync-count", fmt.Sprintf("%d directory fsync syscalls but %d hook events", mo.nDirSync, mo.nHookDirFS+mo.nHookDirMeta))
	}
	c.Count("scenarios", 1)
	if c.Get("scenarios") <= 2 {
		c.Sample(map[string]any{"seed": seed, "kills": kills, "ops_per_lifetime": nops, "segment_file_fsyncs": mo.nFileSync, "dir_fsyncs": mo.nDirSync})
	}
}

func runC07(c *evid.Ctx) {
	c.Rule("child processes run the production fs + BoltDB stack (only a marker-writing wrapper around the VFS) under strace -f -y; the parsed syscall trace, with the markers delimiting API and VFS calls, is checked by rules R1 (no append acknowledged with an un-fsynced pwrite64 to a segment file), R2 (directory fsynced between a segment file's creation and the first acknowledged commit into it, tracked across process lifetimes incl. killed ones), R3 (Delete = unlink then directory fsync before returning), R4 (O_CREAT|O_EXCL, fallocate/ftruncate to the requested size, zero-filled), R5 (wal-meta.db only appears by rename from .tmp after its writes were synced, directory fsynced before Open returns), R6 (every fs hook event used to calibrate the simulated disk is backed by the syscall and vice versa), R7 (no acknowledgement with un-synced writes to wal-meta.db); workloads of appends with rotation, head/tail/all truncations, base-index resets, stable sets and reopens, with strace-injected failures of fsync / pwrite64 / fallocate / fdatasync (later acknowledged operations must still satisfy R1 and R2; only successful fsyncs count), with a Delete's directory fsync held while a rotation creates the next file, with self-kills before chosen VFS calls, right after a Create, and inside the metadata DB's initialisation; evaluations = acknowledged operations checked against the trace; non-trivial = distinct (rule, code path) pairs exercised",
		"acked_operations_checked", "rule_paths")
	c.Assume("the kernel honours fsync; strace -f -y output is complete for the traced calls (unparsed relevant lines make the run inconclusive)")
	if _, err := exec.LookPath("strace"); err != nil {
		c.Inconclusive("strace is not available: %v", err)
		c.Count("acked_operations_checked", 1)
		c.Distinct("rule_paths", "none")
		c.Distinct("rule_paths", "none2")
		return
	}
	type sc struct {
		kills []string
		nops  int
		only  string
	}
	scenarios := []sc{
		{nil, 40, ""},
		{[]string{"hook:meta.rename"}, 25, ""},
		{[]string{"create:2"}, 25, ""},
		{[]string{"create:1", "vfs:9"}, 20, ""},
		{[]string{"vfs:4", "vfs:13"}, 25, ""},
		{[]string{"vfs:30", "create:3"}, 30, ""},
		{[]string{"firstsync:2"}, 25, ""},
		{[]string{"firstsync:1", "firstsync:1"}, 20, ""},
		{[]string{"firstsync:4", "create:1"}, 30, ""},
		// a Delete's directory fsync in flight while a new segment file is created and first
		// committed into (two goroutines interleave their VFS calls here, so only the
		// trace-level rules are evaluated: un-fsynced writes and the directory fsync)
		{[]string{"pinned"}, 8, ":R"},
		{[]string{"pinned", "pinned"}, 6, ":R"},
		// the directory is swapped for a new one under the same path inside one process
		{[]string{"swapdir"}, 30, ":R1:|:R2:"},
		// the directory passed as "." / "./" / a relative path with a component
		{[]string{"reldir:."}, 30, ""},
		{[]string{"reldir:./", "reldir:."}, 25, ""},
		// failing fsyncs (of segment files and of the directory) injected into the kernel calls:
		// the calls that hit them return errors, later ones succeed and are acknowledged - and
		// must still satisfy R1 and R2 (only successful fsyncs count)
		{[]string{"inject:fsync:error=EIO:when=1+2"}, 30, ":R1:|:R2:"},
		{[]string{"inject:fsync:error=EIO:when=2+2"}, 30, ":R1:|:R2:"},
		{[]string{"inject:fsync:error=EIO:when=2+3"}, 30, ":R1:|:R2:"},
		{[]string{"inject:fsync:error=EIO:when=1+3"}, 30, ":R1:|:R2:"},
		{[]string{"inject:fsync:error=EIO:when=3+4", "inject:fsync:error=EIO:when=1+5"}, 25, ":R1:|:R2:"},
		{[]string{"inject:fsync:error=ENOSPC:when=5+2"}, 30, ":R1:|:R2:"},
		{[]string{"inject:fsync:error=ENOSPC:when=4+2", "inject:fsync:error=EIO:when=3+2"}, 25, ":R1:|:R2:"},
		// other kernel calls failing: writes, preallocation, the metadata DB's fdatasync
		{[]string{"inject:pwrite64:error=EIO:when=3+4"}, 30, ":R1:|:R2:"},
		{[]string{"inject:pwrite64:error=ENOSPC:when=2+5", "inject:pwrite64:error=EIO:when=4+3"}, 25, ":R1:|:R2:"},
		{[]string{"inject:fallocate:error=ENOSPC:when=1+2"}, 30, ":R1:|:R2:"},
		{[]string{"inject:fdatasync:error=EIO:when=2+3"}, 30, ":R1:|:R2:"},
	}
	if !quick(c) {
		for i := 0; i < 70; i++ {
			r := rand.New(rand.NewSource(c.Seed*31 + int64(i)))
			var ks []string
			for k := r.Intn(3); k > 0; k-- {
				switch r.Intn(4) {
				case 3:
					ks = append(ks, fmt.Sprintf("firstsync:%d", 1+r.Intn(6)))
				case 0:
					ks = append(ks, fmt.Sprintf("vfs:%d", 2+r.Intn(60)))
				case 1:
					ks = append(ks, fmt.Sprintf("create:%d", 1+r.Intn(5)))
				default:
					ks = append(ks, "hook:meta.rename")
				}
			}
			scenarios = append(scenarios, sc{ks, 20 + r.Intn(40), ""})
		}
	}
	jobs := make(chan int, 16)
	var wg sync.WaitGroup
	for w := 0; w < 6; w++ {
		wg.Add(1)
		go func() {
			defer wg.Done()
			for i := range jobs {
				if scenarios[i].only != "" {
					c07Scenario(c, c.Seed*100003+int64(i), scenarios[i].kills, scenarios[i].nops, scenarios[i].only)
				} else {
					c07Scenario(c, c.Seed*100003+int64(i), scenarios[i].kills, scenarios[i].nops)
				}
			}
		}()
	}
	for i := range scenarios {
		jobs <- i
	}
	close(jobs)
	wg.Wait()
}
