package checks

import (
	"fmt"
	"math/rand"
	"os"
	"runtime"
	"sort"
	"strings"
	"sync"

	"github.com/hashicorp/raft"
	wal "github.com/hashicorp/raft-wal"

	"verif/internal/drv"
	"verif/internal/evid"
	"verif/internal/gen"
	"verif/internal/hooks"
	"verif/internal/model"
	"verif/internal/sched"
	"verif/internal/simfs"
)

// Op templates of the C05 alphabet; each is instantiated against the current
// model state.
var c05Templates = []string{
	"A1", "A3", "Abig", "Agap", "Arepeat", "Alow", "Anoncons", "Aempty",
	"Dpre1", "DpreK", "Dsuf1", "DsufK", "Dall", "Dmid", "Dbelow", "Dabove", "Dinv", "Reopen",
	"DallMax", "DsufMax",
}

func init() {
	register("C05", &Check{Level: "exploration", Run: runC05})
}

type c05Geo struct {
	seg   int
	start uint64
}

// instantiate turns a template into a concrete op for model state l.
func c05Instantiate(t string, l *model.Log, start uint64, rng *rand.Rand, tag string, seg int) gen.Op {
	next := l.Last + 1
	if l.Empty() {
		next = start
	}
	mk := func(idx uint64, sz int) *raft.Log { return gen.Entry(rng, idx, tag, sz) }
	switch t {
	case "A1":
		return gen.Op{Kind: "append", Logs: []*raft.Log{mk(next, 8+rng.Intn(24))}}
	case "A3":
		return gen.Op{Kind: "append", Logs: []*raft.Log{mk(next, 10+rng.Intn(10)), mk(next+1, rng.Intn(9)), mk(next+2, 16+rng.Intn(16))}}
	case "Abig":
		sz := seg + rng.Intn(40)
		if rng.Intn(6) == 0 {
			sz = 65400 + rng.Intn(3000) // around and above the 64 KiB pooled read buffer
		}
		return gen.Op{Kind: "append", Logs: []*raft.Log{mk(next, sz), mk(next+1, 5)}}
	case "Agap":
		return gen.Op{Kind: "append", Logs: []*raft.Log{mk(next+1+uint64(rng.Intn(3)), 12)}}
	case "Arepeat":
		idx := l.Last
		if l.Empty() {
			idx = start
		}
		return gen.Op{Kind: "append", Logs: []*raft.Log{mk(idx, 12)}}
	case "Alow":
		idx := l.First
		if idx > 1 {
			idx--
		}
		if l.Empty() {
			idx = start + 7
		}
		return gen.Op{Kind: "append", Logs: []*raft.Log{mk(idx, 12)}}
	case "Anoncons":
		return gen.Op{Kind: "append", Logs: []*raft.Log{mk(next, 12), mk(next+2, 12)}}
	case "Aempty":
		return gen.Op{Kind: "append", Logs: []*raft.Log{}}
	case "Dpre1":
		return gen.Op{Kind: "delete", Min: l.First, Max: l.First}
	case "DpreK":
		return gen.Op{Kind: "delete", Min: 0, Max: l.First + 1}
	case "Dsuf1":
		return gen.Op{Kind: "delete", Min: l.Last, Max: l.Last}
	case "DsufK":
		mn := l.Last
		if mn > l.First {
			mn--
		}
		return gen.Op{Kind: "delete", Min: mn, Max: l.Last + 10}
	case "Dall":
		return gen.Op{Kind: "delete", Min: l.First, Max: l.Last}
	case "DallMax":
		// everything, named the way "from here to the end of time" is usually written
		mn := l.First
		if rng.Intn(2) == 0 {
			mn = 0
		}
		return gen.Op{Kind: "delete", Min: mn, Max: ^uint64(0) - uint64(rng.Intn(2))}
	case "DsufMax":
		mn := l.Last
		if mn > l.First+1 {
			mn -= uint64(rng.Intn(2))
		}
		return gen.Op{Kind: "delete", Min: mn, Max: ^uint64(0)}
	case "Dmid":
		return gen.Op{Kind: "delete", Min: l.First + 1, Max: l.Last - 1}
	case "Dbelow":
		mx := l.First
		if mx > 0 {
			mx--
		}
		return gen.Op{Kind: "delete", Min: 0, Max: mx}
	case "Dabove":
		return gen.Op{Kind: "delete", Min: l.Last + 1, Max: l.Last + 5}
	case "Dinv":
		return gen.Op{Kind: "delete", Min: l.Last + 1, Max: l.First}
	case "Reopen":
		return gen.Op{Kind: "reopen"}
	}
	panic("unknown template " + t)
}

// c05Store abstracts over a sim-backed or real-directory WAL.
type c05Store struct {
	disk *simfs.Disk
	dir  string
	seg  int
	w    *wal.WAL
}

func (s *c05Store) open() error {
	var err error
	if s.disk != nil {
		s.w, err = drv.OpenSim(s.disk, drv.Cfg{SegSize: s.seg})
	} else {
		s.w, err = drv.OpenDir(s.dir, drv.Cfg{SegSize: s.seg})
	}
	return err
}

func (s *c05Store) close() {
	if s.w != nil {
		drv.CloseWAL(s.w)
		s.w = nil
	}
}

// c05Run executes one template sequence and compares with the model after
// every step, in the live WAL and in a recovered clone of its directory.
func c05Run(c *evid.Ctx, geo c05Geo, seq []string, rng *rand.Rand, real bool, seqID string, pend bool) {
	st := &c05Store{seg: geo.seg}
	if real {
		dir, err := os.MkdirTemp("", "verif-c05-")
		if err != nil {
			c.Inconclusive("cannot create temp dir: %v", err)
			return
		}
		defer os.RemoveAll(dir)
		st.dir = dir
	} else {
		st.disk = simfs.New(simfs.Strict)
	}
	if err := st.open(); err != nil {
		c.Violation("C05:open-fresh", "Open of a fresh directory failed: "+err.Error(), map[string]any{"geo": geo, "seq": seq})
		return
	}
	defer st.close()
	// pending-rotation mode: the background rotation is held at the point where it is
	// queued but has not taken the write lock, so the next call (or Close) always gets in
	// first; it is released when that call starts waiting for it, or has returned
	var gate *sched.RotGate
	if pend {
		gate = sched.NewRotGate(st.w)
		defer func() { gate.Close() }()
		c.Count("pending_rotation_sequences", 1)
	}
	l := model.NewLog()
	var ever []uint64
	var ops []string
	c.Count("sequences", 1)
	for i, t := range seq {
		op := c05Instantiate(t, l, geo.start, rng, fmt.Sprintf("%s.%d", seqID, i), geo.seg)
		ops = append(ops, t+"="+op.String())
		replay := map[string]any{"seg_size": geo.seg, "start": geo.start, "templates": seq, "ops": ops, "step": i, "real_fs": real}
		shape := shapeOf(l)
		c.Distinct("state_op_pairs", shape+"|"+t)
		c.Count("steps", 1)
		if t == "Reopen" {
			if gate != nil && gate.Holding() {
				c.Count("closes_with_rotation_pending", 1)
			}
			st.close()
			if gate != nil {
				gate.Close()
			}
			err := st.open()
			if gate != nil && err == nil {
				gate = sched.NewRotGate(st.w)
			}
			if err != nil {
				c.Violation("C05:reopen-failed", fmt.Sprintf("clean Close/Open failed after %v: %v", ops, err), replay)
				return
			}
		} else {
			var res drv.Result
			if gate == nil {
				res = drv.Apply(st.w, op)
			} else {
				res = drv.ApplyNoWait(st.w, op)
				sw := st.w
				res.Quiesced = gate.Settle(func() (int64, int64, int64) { return hooks.Rotations(sw) }, drv.Watchdog)
				if gate.Holding() && rng.Intn(2) == 0 {
					// sometimes let the rotation finish now, sometimes leave it pending for the next call
					gate.Release()
					res.Quiesced = hooks.WaitRotation(st.w, drv.Watchdog)
				}
			}
			if !res.Quiesced {
				c.Inconclusive("rotation did not finish within the watchdog in %v", ops)
				return
			}
			var wantErr bool
			switch op.Kind {
			case "append":
				wantErr = l.CheckAppend(op.Logs) != nil
				if !wantErr && res.Err == nil {
					l.Append(op.Logs, i, true)
					for _, lg := range op.Logs {
						ever = append(ever, lg.Index)
					}
				}
			case "delete":
				wantErr = l.ClassifyDelete(op.Min, op.Max) == model.DelMiddle
				if !wantErr && res.Err == nil {
					l.DeleteRange(op.Min, op.Max)
				}
			}
			if wantErr {
				c.Distinct("error_paths_taken", t)
			}
			if wantErr != (res.Err != nil) {
				c.Violation("C05:verdict:"+t, fmt.Sprintf("%s on state %s: returned err=%v but the model says reject=%v (sequence %v)", op, shape, res.Err, wantErr, ops), replay)
				return
			}
		}
		probes := model.ProbeSet(ever, l)
		obs := drv.Observe(st.w, probes)
		if d := l.Diff(obs); d != "" {
			c.Violation("C05:mismatch-after:"+t+":"+diffClass(d), fmt.Sprintf("after %v (seg=%d): %s", ops, geo.seg, d), replay)
			return
		}
		// the same on a recovered copy of the directory ("identically after a reopen")
		if !real {
			img := st.disk.Snapshot().Image(simfs.Variant{Kill: true})
			w2, err := drv.OpenSim(img, drv.Cfg{SegSize: geo.seg})
			if err != nil {
				c.Violation("C05:clone-open-failed:"+t, fmt.Sprintf("opening a copy of the directory after %v failed: %v", ops, err), replay)
				return
			}
			obs2 := drv.Observe(w2, probes)
			drv.CloseWAL(w2)
			if d := l.Diff(obs2); d != "" {
				c.Violation("C05:mismatch-after-reopen:"+t+":"+diffClass(d), fmt.Sprintf("reopened copy after %v (seg=%d): %s", ops, geo.seg, d), replay)
				return
			}
			c.Count("reopen_comparisons", 1)
			if pend {
				// what the first reopen wrote (e.g. a rotation it completed) must read back the
				// same after a second one
				w3, err := drv.OpenSim(img, drv.Cfg{SegSize: geo.seg})
				if err != nil {
					c.Violation("C05:second-reopen-failed:"+t, fmt.Sprintf("second reopen of a copy after %v failed: %v", ops, err), replay)
					return
				}
				obs3 := drv.Observe(w3, probes)
				drv.CloseWAL(w3)
				if d := l.Diff(obs3); d != "" {
					c.Violation("C05:mismatch-after-second-reopen:"+t+":"+diffClass(d), fmt.Sprintf("copy reopened twice after %v (seg=%d): %s", ops, geo.seg, d), replay)
					return
				}
			}
		}
	}
}

func diffClass(d string) string {
	switch {
	case strings.Contains(d, "error"):
		return "error"
	case strings.Contains(d, "FirstIndex="):
		return "first"
	case strings.Contains(d, "LastIndex="):
		return "last"
	case strings.Contains(d, "model has none"):
		return "extra"
	case strings.Contains(d, "NotFound"):
		return "missing"
	}
	return "content"
}

// shapeOf abstracts a model state to (empty | 1 | 2 | few | many entries) x truncated-head.
func shapeOf(l *model.Log) string {
	n := l.Len()
	s := "many"
	switch {
	case n == 0:
		s = "empty"
	case n <= 2:
		s = fmt.Sprint(n)
	case n <= 5:
		s = "few"
	}
	return s
}

func runC05(c *evid.Ctx) {
	c.Rule("operation sequences over a 20-template alphabet (appends: 1, 3, larger than a segment - one in six of those around or above the 64 KiB pooled read buffer -, gap, repeat, lower, internally non-consecutive, empty; deletes: prefix, suffix, all, all / suffix with max = MaxUint64 (or MaxUint64-1), strict middle, disjoint, inverted; reopen), exhaustive to a depth bound for each (segment size, start index) geometry and seeded random beyond; after EVERY step the full observable state (First, Last, GetLog of [first-2,last+2] + {0,1,max} + every index ever written) is compared with the model, in the live WAL and in a reopened copy of the directory; a third of the sequences run in pending-rotation mode (the background rotation is held queued so that the next call, or Close, always gets the write lock first, and the directory copy is reopened twice); non-trivial = distinct (model-state shape, template) pairs exercised",
		"steps", "state_op_pairs")
	c.Assume("index 0 is never used as a raft index (LastIndex()==0 means empty)", "simfs.Strict behaviour (this check does not crash anything)")
	depth := 3
	geos := []c05Geo{}
	for _, seg := range []int{64, 150, 230, 4096} {
		for _, start := range []uint64{1, 100, 1<<32 + 5} {
			geos = append(geos, c05Geo{seg, start})
		}
	}
	nRandom, nReal := 300, 24
	tmpl := c05Templates
	if !quick(c) {
		depth = 4
		nRandom, nReal = 20000, 300
	} else {
		// quick: full alphabet at depth 2 for all geometries, depth 3 over a reduced alphabet
		depth = 3
		tmpl = []string{"A1", "A3", "Abig", "Agap", "Anoncons", "Dpre1", "DpreK", "Dsuf1", "DsufK", "Dall", "DallMax", "Dmid", "Reopen"}
	}
	type job struct {
		geo  c05Geo
		seq  []string
		real bool
		id   string
		seed int64
		pend bool
	}
	jobs := make(chan job, 256)
	var wg sync.WaitGroup
	for i := 0; i < runtime.NumCPU(); i++ {
		wg.Add(1)
		go func() {
			defer wg.Done()
			for j := range jobs {
				c05Run(c, j.geo, j.seq, rand.New(rand.NewSource(j.seed)), j.real, j.id, j.pend)
			}
		}()
	}
	n := 0
	var rec func(geo c05Geo, prefix []string, d int, alphabet []string)
	rec = func(geo c05Geo, prefix []string, d int, alphabet []string) {
		if d == 0 {
			n++
			jobs <- job{geo, append([]string{}, prefix...), false, fmt.Sprintf("e%d", n), c.Seed*7919 + int64(n), n%3 == 0}
			return
		}
		for _, t := range alphabet {
			rec(geo, append(prefix, t), d-1, alphabet)
		}
	}
	for _, g := range geos {
		// every sequence is preceded by a fixed warm-up so that truncations have something to bite on
		for _, warm := range [][]string{{}, {"A3", "A3"}} {
			if quick(c) {
				rec(g, warm, 2, c05Templates)
				if len(warm) > 0 {
					rec(g, warm, depth, tmpl)
				}
			} else {
				rec(g, warm, depth, c05Templates)
			}
		}
	}
	c.Extra("exhaustive_sequences", n)
	c.Extra("exhaustive_depth", depth)
	rng := rand.New(rand.NewSource(c.Seed))
	for i := 0; i < nRandom+nReal; i++ {
		g := geos[rng.Intn(len(geos))]
		ln := 20 + rng.Intn(60)
		seq := make([]string, ln)
		for k := range seq {
			// bias to appends so logs grow over several segments
			if rng.Intn(3) == 0 {
				seq[k] = []string{"A1", "A3", "A3", "Abig"}[rng.Intn(4)]
			} else {
				seq[k] = c05Templates[rng.Intn(len(c05Templates))]
			}
		}
		real := i >= nRandom
		if real && ln > 40 {
			seq = seq[:40]
		}
		if i < 2 {
			c.Sample(map[string]any{"geometry": g, "templates": seq})
		}
		if real {
			c.Count("real_fs_sequences", 1)
		}
		jobs <- job{g, seq, real, fmt.Sprintf("r%d", i), c.Seed*104729 + int64(i), !real && i%2 == 0}
	}
	close(jobs)
	wg.Wait()
	c.Sample(map[string]any{"geometry": geos[0], "templates": []string{"A3", "A3", "Dpre1", "Dsuf1", "Reopen"}, "note": "one of the exhaustively enumerated sequences"})
	ep := []string{}
	_ = sort.Strings
	c.Extra("templates", c05Templates)
	_ = ep
}
