package checks

import (
	"bufio"
	"bytes"
	"encoding/binary"
	"fmt"
	"hash/crc32"
	"math/rand"
	"os"
	"os/exec"
	"runtime"
	"runtime/debug"
	"strconv"
	"strings"
	"sync"
	"sync/atomic"
	"syscall"
	"time"

	"github.com/anishathalye/porcupine"
	"github.com/hashicorp/raft"
	wal "github.com/hashicorp/raft-wal"

	"verif/internal/drv"
	"verif/internal/evid"
	"verif/internal/gen"
	"verif/internal/hist"
	"verif/internal/hooks"
	"verif/internal/model"
	"verif/internal/simfs"
)

func init() {
	register("C08", &Check{Level: "exploration", Race: true, Run: runC08})
	Children["c08-setter"] = c08Child
	Children["c08-faulty"] = c08FaultyChild
}

// Children are entry points run in a child process: vrun -child <name> args...
var Children = map[string]func(args []string){}

type c08KV struct {
	key, val []byte
	class    string
}

func c08Keys(rng *rand.Rand) c08KV {
	var kv c08KV
	switch rng.Intn(8) {
	case 0:
		kv.key, kv.class = []byte("CurrentTerm"), "std"
	case 1:
		kv.key, kv.class = []byte{0, 1, 2, 0xff, 0}, "binary-key"
	case 2:
		kv.key, kv.class = bytes.Repeat([]byte("k"), 32768), "max-key"
	case 3:
		kv.key, kv.class = bytes.Repeat([]byte("k"), 32769), "oversize-key"
	case 4:
		kv.key, kv.class = []byte{}, "empty-key"
	default:
		kv.key, kv.class = []byte(fmt.Sprintf("key%d", rng.Intn(4))), "plain"
	}
	switch rng.Intn(8) {
	case 0:
		kv.val = nil
		kv.class += "|nil"
	case 1:
		kv.val = []byte{}
		kv.class += "|empty"
	case 2:
		kv.val = []byte{byte(rng.Intn(256))}
		kv.class += "|1B"
	case 3:
		kv.val = make([]byte, 8)
		rng.Read(kv.val)
		kv.class += "|8B"
	case 4:
		kv.val = make([]byte, 64*1024)
		rng.Read(kv.val[:32])
		kv.class += "|64KiB"
	default:
		kv.val = []byte(fmt.Sprintf("v%d", rng.Int63()))
		kv.class += "|small"
	}
	return kv
}

// c08Seq: sequential lock-step with the stable model, interleaved with log ops.
func c08Seq(c *evid.Ctx, seed int64) {
	rng := rand.New(rand.NewSource(seed))
	real := rng.Intn(6) == 0
	st := &c05Store{seg: []int{150, 300, 4096}[rng.Intn(3)]}
	if real {
		dir, err := os.MkdirTemp("", "verif-c08-")
		if err != nil {
			return
		}
		defer os.RemoveAll(dir)
		st.dir = dir
	} else {
		st.disk = simfs.New(simfs.Strict)
	}
	if err := st.open(); err != nil {
		c.Violation("C08:open", err.Error(), nil)
		return
	}
	defer st.close()
	sm := model.NewStable()
	l := model.NewLog()
	var calls []string
	replay := func() map[string]any { return map[string]any{"seed": seed, "real_fs": real, "calls": tail(calls, 30)} }
	lastLog := "none"
	// values handed out by Get are kept and compared again later: a returned value must
	// stay what it was (and stay readable) whatever the store does afterwards
	type heldVal struct {
		key  string
		got  []byte
		copy []byte
	}
	var held []heldVal
	checkHeld := func(when string) bool {
		old := debug.SetPanicOnFault(true)
		defer debug.SetPanicOnFault(old)
		for _, h := range held {
			bad := ""
			func() {
				defer func() {
					if r := recover(); r != nil {
						bad = fmt.Sprintf("reading it faults: %v", r)
					}
				}()
				if !bytes.Equal(h.got, h.copy) {
					bad = "its bytes changed"
				}
			}()
			c.Count("retained_values_rechecked", 1)
			if bad != "" {
				c.Violation("C08:returned-value-not-stable:"+when, fmt.Sprintf("a value returned earlier by Get(%q) (%d bytes) is no longer what was returned (%s): %s", short8(h.key), len(h.copy), when, bad), replay())
				held = nil
				return false
			}
		}
		if len(held) > 24 {
			held = held[len(held)-24:]
		}
		return true
	}
	checkAll := func(when string) bool {
		if !checkHeld(when) {
			return false
		}
		for k, v := range sm.M {
			got, err := st.w.Get([]byte(k))
			if err == nil && len(got) > 0 {
				held = append(held, heldVal{k, got, append([]byte{}, got...)})
			}
			if err != nil || !bytes.Equal(got, v) {
				c.Violation("C08:stable-value:"+when, fmt.Sprintf("%s: Get(%q) = %d bytes / err %v, latest successful Set stored %d bytes (after log op %s)", when, short8(k), len(got), err, len(v), lastLog), replay())
				return false
			}
			c.Count("stable_comparisons", 1)
		}
		obs := drv.Observe(st.w, []uint64{l.First, l.Last, l.Last + 1})
		if obs.First != l.First || obs.Last != l.Last {
			c.Violation("C08:log-changed-by-stable-op:"+when, fmt.Sprintf("%s: First/Last = %d/%d, model %d/%d", when, obs.First, obs.Last, l.First, l.Last), replay())
			return false
		}
		return true
	}
	steps := 30 + rng.Intn(40)
	for s := 0; s < steps; s++ {
		x := rng.Intn(100)
		switch {
		case x < 30: // Set
			kv := c08Keys(rng)
			err := st.w.Set(kv.key, kv.val)
			calls = append(calls, fmt.Sprintf("Set(%s)=%v", kv.class, err != nil))
			c.Distinct("op_contexts", "set|"+kv.class+"|after-"+lastLog)
			wantErr := strings.HasPrefix(kv.class, "oversize-key") || strings.HasPrefix(kv.class, "empty-key")
			if real && wantErr && kv.val != nil && err == nil {
				c.Violation("C08:invalid-key-accepted", fmt.Sprintf("Set with %s returned nil", kv.class), replay())
			}
			if err == nil {
				if !wantErr || !real {
					sm.Set(kv.key, kv.val)
					if len(kv.val) == 0 { // nil/empty are equivalent to unset
						delete(sm.M, string(kv.key))
					}
				}
			}
			// read back right away
			got, gerr := st.w.Get(kv.key)
			if err == nil && gerr == nil && !(len(got) == 0 && len(kv.val) == 0) && !bytes.Equal(got, kv.val) && !(wantErr && real) {
				c.Violation("C08:get-after-set", fmt.Sprintf("Get after Set(%s) returned %d bytes, want %d", kv.class, len(got), len(kv.val)), replay())
				return
			}
			lastLog = "set"
		case x < 40: // SetUint64 / GetUint64
			k := []byte(fmt.Sprintf("u%d", rng.Intn(3)))
			v := []uint64{0, 1, ^uint64(0), rng.Uint64()}[rng.Intn(4)]
			if err := st.w.SetUint64(k, v); err != nil {
				c.Violation("C08:setuint64-error", err.Error(), replay())
				return
			}
			var b [8]byte
			binary.LittleEndian.PutUint64(b[:], v)
			sm.Set(k, b[:])
			got, err := st.w.GetUint64(k)
			calls = append(calls, fmt.Sprintf("SetUint64(%s,%d)", k, v))
			c.Distinct("op_contexts", "setu64|after-"+lastLog)
			if err != nil || got != v {
				c.Violation("C08:getuint64", fmt.Sprintf("GetUint64 after SetUint64(%d) = %d, %v", v, got, err), replay())
				return
			}
			if g0, err := st.w.GetUint64([]byte("never-set")); err != nil || g0 != 0 {
				c.Violation("C08:getuint64-unset", fmt.Sprintf("GetUint64(unset) = %d, %v", g0, err), replay())
			}
		case x < 45: // GetUint64 on a non-8-byte value must error and change nothing
			st.w.Set([]byte("odd"), []byte("abc"))
			sm.Set([]byte("odd"), []byte("abc"))
			if _, err := st.w.GetUint64([]byte("odd")); err == nil {
				c.Violation("C08:getuint64-non8", "GetUint64 on a 3-byte value returned nil error", replay())
			}
			c.Distinct("op_contexts", "getu64-non8")
		case x < 55: // reopen
			st.close()
			if !checkHeld("after-close") {
				return
			}
			if err := st.open(); err != nil {
				c.Violation("C08:reopen", err.Error(), replay())
				return
			}
			calls = append(calls, "reopen")
			lastLog = "reopen"
			if !checkAll("after-reopen") {
				return
			}
		default: // a log op from the C05 alphabet
			t := c05Templates[rng.Intn(len(c05Templates)-1)]
			op := c05Instantiate(t, l, 1, rng, "s", st.seg)
			res := drv.Apply(st.w, op)
			calls = append(calls, t)
			if res.Err == nil {
				switch op.Kind {
				case "append":
					if l.CheckAppend(op.Logs) == nil {
						l.Append(op.Logs, s, true)
					}
				case "delete":
					if l.ClassifyDelete(op.Min, op.Max) != model.DelMiddle {
						l.DeleteRange(op.Min, op.Max)
					}
				}
			}
			lastLog = t
			if !checkAll("after-log-op") {
				return
			}
		}
		c.Count("stable_ops", 1)
	}
	checkAll("at-end")
	c.Count("sequences", 1)
}

func short8(s string) string {
	if len(s) > 12 {
		return s[:12] + "…"
	}
	return s
}

// c08Concurrent: per-key register histories (porcupine, partitioned by key)
// while a writer appends, rotates and truncates. Real BoltDB.
func c08Concurrent(c *evid.Ctx, seed int64) {
	rng := rand.New(rand.NewSource(seed))
	dir, err := os.MkdirTemp("", "verif-c08c-")
	if err != nil {
		return
	}
	defer os.RemoveAll(dir)
	w, err := drv.OpenDir(dir, drv.Cfg{SegSize: 2048})
	if err != nil {
		c.Violation("C08:open", err.Error(), nil)
		return
	}
	defer drv.CloseWAL(w)
	type in struct {
		Key   string
		Write bool
		Val   string
	}
	var mu sync.Mutex
	var ops []porcupine.Operation
	stop := make(chan struct{})
	var wg sync.WaitGroup
	var logErr atomic.Value
	wg.Add(1)
	go func() { // log writer
		defer wg.Done()
		r := rand.New(rand.NewSource(seed * 3))
		next := uint64(1)
		first := uint64(1)
		for {
			select {
			case <-stop:
				return
			default:
			}
			switch r.Intn(6) {
			case 0:
				if next-first > 6 {
					if err := w.DeleteRange(first, first+1); err != nil {
						logErr.Store(err)
						return
					}
					first += 2
				}
			case 1:
				if next-first > 6 {
					if err := w.DeleteRange(next-2, next-1); err != nil {
						logErr.Store(err)
						return
					}
					next -= 2
				}
			default:
				lg := gen.Entry(r, next, "c", 100+r.Intn(300))
				if err := w.StoreLogs([]*raft.Log{lg}); err != nil {
					logErr.Store(err)
					return
				}
				next++
			}
		}
	}()
	nClients := 4 + rng.Intn(4)
	var cwg sync.WaitGroup
	for cl := 0; cl < nClients; cl++ {
		cwg.Add(1)
		go func(cl int) {
			defer cwg.Done()
			r := rand.New(rand.NewSource(seed*17 + int64(cl)))
			for i := 0; i < 60; i++ {
				key := fmt.Sprintf("k%d", r.Intn(2))
				if r.Intn(3) == 0 {
					// the uint64 API on its own keys: same per-key register model, values
					// unique per (client, step)
					key = fmt.Sprintf("u%d", r.Intn(3))
					if r.Intn(2) == 0 {
						v := uint64(cl+1)<<40 | uint64(i+1)<<8 | uint64(r.Intn(256))
						t0 := hist.Ticket()
						err := w.SetUint64([]byte(key), v)
						t1 := hist.Ticket()
						if err != nil {
							logErr.Store(err)
							return
						}
						mu.Lock()
						ops = append(ops, porcupine.Operation{ClientId: cl, Input: in{key, true, fmt.Sprint(v)}, Call: t0, Output: "", Return: t1})
						mu.Unlock()
					} else {
						t0 := hist.Ticket()
						got, err := w.GetUint64([]byte(key))
						t1 := hist.Ticket()
						if err != nil {
							logErr.Store(err)
							return
						}
						out := fmt.Sprint(got)
						if got == 0 {
							out = "" // never-set keys read as 0
						}
						mu.Lock()
						ops = append(ops, porcupine.Operation{ClientId: cl, Input: in{key, false, ""}, Call: t0, Output: out, Return: t1})
						mu.Unlock()
					}
					continue
				}
				if r.Intn(2) == 0 {
					val := fmt.Sprintf("c%d-%d", cl, i)
					t0 := hist.Ticket()
					err := w.Set([]byte(key), []byte(val))
					t1 := hist.Ticket()
					if err != nil {
						logErr.Store(err)
						return
					}
					mu.Lock()
					ops = append(ops, porcupine.Operation{ClientId: cl, Input: in{key, true, val}, Call: t0, Output: "", Return: t1})
					mu.Unlock()
				} else {
					t0 := hist.Ticket()
					got, err := w.Get([]byte(key))
					t1 := hist.Ticket()
					if err != nil {
						logErr.Store(err)
						return
					}
					mu.Lock()
					ops = append(ops, porcupine.Operation{ClientId: cl, Input: in{key, false, ""}, Call: t0, Output: string(got), Return: t1})
					mu.Unlock()
				}
			}
		}(cl)
	}
	cwg.Wait()
	close(stop)
	wg.Wait()
	hooks.WaitRotation(w, drv.Watchdog)
	if e := logErr.Load(); e != nil {
		c.Violation("C08:concurrent-error", fmt.Sprintf("an operation failed during the concurrent run: %v", e), map[string]any{"seed": seed})
		return
	}
	m := porcupine.Model{
		Partition: func(history []porcupine.Operation) [][]porcupine.Operation {
			byKey := map[string][]porcupine.Operation{}
			for _, o := range history {
				k := o.Input.(in).Key
				byKey[k] = append(byKey[k], o)
			}
			var out [][]porcupine.Operation
			for _, v := range byKey {
				out = append(out, v)
			}
			return out
		},
		Init: func() any { return "" },
		Step: func(state, input, output any) (bool, any) {
			i := input.(in)
			if i.Write {
				return true, i.Val
			}
			return output.(string) == state.(string), state
		},
		Equal: func(a, b any) bool { return a.(string) == b.(string) },
	}
	res, _ := porcupine.CheckOperationsVerbose(m, ops, 60*time.Second)
	c.Count("concurrent_histories", 1)
	c.Count("concurrent_stable_ops", int64(len(ops)))
	c.Count("stable_ops", int64(len(ops)))
	c.Distinct("op_contexts", "concurrent|"+fmt.Sprint(res))
	switch res {
	case porcupine.Illegal:
		c.Violation("C08:not-linearizable", "concurrent Set/Get history on the StableStore is not linearizable per key (a Get returned a value that is not the latest Set)", map[string]any{"seed": seed, "ops": len(ops)})
	case porcupine.Unknown:
		c.Inconclusive("porcupine timed out on a stable-store history of %d operations", len(ops))
	}
	// a final sequential read of each key must equal the last write in real time order if unambiguous
}

// c08Child is the child process for the kill test: it performs Sets and log
// appends on a real directory and reports each acknowledgement on stdout.
func c08Child(args []string) {
	dir := args[0]
	seed, _ := strconv.ParseInt(args[1], 10, 64)
	start, _ := strconv.Atoi(args[2])
	w, err := wal.Open(dir, wal.WithSegmentSize(4096))
	if err != nil {
		fmt.Println("OPENERR", err)
		os.Exit(3)
	}
	out := bufio.NewWriterSize(os.Stdout, 0)
	rng := rand.New(rand.NewSource(seed))
	last, _ := w.LastIndex()
	for i := start; ; i++ {
		key := fmt.Sprintf("k%d", rng.Intn(3))
		val := fmt.Sprintf("v%d", i)
		fmt.Fprintf(os.Stdout, "BEGIN %d %s %s\n", i, key, val)
		if err := w.Set([]byte(key), []byte(val)); err != nil {
			fmt.Fprintf(os.Stdout, "ERR %d %v\n", i, err)
			os.Exit(4)
		}
		fmt.Fprintf(os.Stdout, "ACK %d %s %s\n", i, key, val)
		if rng.Intn(2) == 0 {
			last++
			w.StoreLogs([]*raft.Log{gen.Entry(rng, last, "k", 50+rng.Intn(400))})
		}
		_ = out
	}
}

// c08Kill: SIGKILL the setter child at a random moment, reopen, check that every
// acknowledged Set is there (or a later one that was in flight).
func c08Kill(c *evid.Ctx, seed int64) {
	rng := rand.New(rand.NewSource(seed))
	dir, err := os.MkdirTemp("", "verif-c08k-")
	if err != nil {
		return
	}
	defer os.RemoveAll(dir)
	acked := map[string]string{}
	inflight := map[string]string{}
	next := 0
	for life := 0; life < 3; life++ {
		cmd := exec.Command(os.Args[0], "-child", "c08-setter", dir, fmt.Sprint(seed+int64(life)), fmt.Sprint(next))
		stdout, _ := cmd.StdoutPipe()
		if err := cmd.Start(); err != nil {
			c.Inconclusive("cannot start child: %v", err)
			return
		}
		killAfter := 1 + rng.Intn(40)
		sc := bufio.NewScanner(stdout)
		n := 0
		killed := false
		for sc.Scan() {
			f := strings.Fields(sc.Text())
			if len(f) < 4 {
				if len(f) > 0 && (f[0] == "OPENERR" || f[0] == "ERR") {
					c.Violation("C08:child-error", sc.Text(), map[string]any{"seed": seed, "lifetime": life})
				}
				continue
			}
			i, _ := strconv.Atoi(f[1])
			switch f[0] {
			case "BEGIN":
				inflight[f[2]] = f[3]
			case "ACK":
				acked[f[2]] = f[3]
				delete(inflight, f[2])
				next = i + 1
				n++
			}
			if n >= killAfter && !killed {
				killed = true
				time.Sleep(time.Duration(rng.Intn(300)) * time.Microsecond)
				cmd.Process.Signal(syscall.SIGKILL)
				// keep reading: whatever the child acknowledged before it died counts
			}
		}
		cmd.Process.Signal(syscall.SIGKILL)
		cmd.Wait()
		// drain what the child printed before dying
		c.Count("kills", 1)
		w, err := drv.OpenDir(dir, drv.Cfg{SegSize: 4096})
		if err != nil {
			c.Violation("C08:open-after-kill", fmt.Sprintf("Open after SIGKILL of a process doing Set/StoreLogs failed: %v", err), map[string]any{"seed": seed, "lifetime": life})
			return
		}
		for k, v := range acked {
			got, err := w.Get([]byte(k))
			ok := err == nil && (string(got) == v || (inflight[k] != "" && string(got) == inflight[k]))
			c.Count("acked_sets_checked_after_kill", 1)
			if !ok {
				c.Violation("C08:acked-set-lost-after-kill", fmt.Sprintf("after SIGKILL Get(%s)=%q (err %v); acknowledged %q, in flight %q", k, got, err, v, inflight[k]), map[string]any{"seed": seed, "lifetime": life})
			}
			if err == nil && inflight[k] != "" && string(got) == inflight[k] {
				acked[k] = inflight[k]
			}
		}
		inflight = map[string]string{}
		drv.CloseWAL(w)
		next += 2
	}
	c.Distinct("op_contexts", "kill-real-bolt")
	c.Count("stable_ops", int64(next))
}

func runC08(c *evid.Ctx) {
	c.Rule("(a) sequential lock-step of Set/Get/SetUint64/GetUint64 (keys: standard, binary, 32768-byte, oversize, empty; values: nil, empty, 1B, 8B, 64KiB) interleaved with every log op template of C05 and clean reopens, comparing the stable model and the log bounds after every step, on simfs and on real BoltDB; (b) concurrent per-key register histories on real BoltDB while a writer appends/rotates/truncates, checked by porcupine partitioned by key, race detector on; (c) child processes on real fs + BoltDB doing Set and StoreLogs, SIGKILLed at random acknowledgement counts, three lifetimes per directory: every acknowledged Set must be readable after reopen; (d) under strace, no operation is acknowledged while writes to wal-meta.db are not followed by fdatasync (rule R7 of the C07 trace monitor); (e) children whose fdatasync / pwrite64 calls fail by strace error injection: a Set that returned nil must be readable in-process and after a fault-free reopen, a failed Set leaves the old or the new value; (f) power-loss images (subsets of the writes not yet followed by fsync, torn at 512-byte boundaries, prefixes of the pending directory operations) reconstructed from the strace of a Set-heavy child on real BoltDB: every acknowledged Set is readable from every image; non-trivial = distinct (stable op, key/value class, preceding log op kind) contexts",
		"stable_ops", "op_contexts")
	c.Assume("BoltDB key limits: empty and >32768-byte keys are errors that change nothing", "SIGKILL leaves the OS page cache intact (process-death model); power loss is covered by (d) and (f)")
	nSeq, nConc, nKill := 200, 6, 3
	if !quick(c) {
		nSeq, nConc, nKill = 8000, 300, 60
	}
	jobs := make(chan func(), 32)
	var wg sync.WaitGroup
	for i := 0; i < runtime.NumCPU(); i++ {
		wg.Add(1)
		go func() {
			defer wg.Done()
			for f := range jobs {
				f()
			}
		}()
	}
	for i := 0; i < nSeq; i++ {
		s := c.Seed*1000003 + int64(i)
		jobs <- func() { c08Seq(c, s) }
	}
	for i := 0; i < nConc; i++ {
		s := c.Seed*7919 + int64(i)
		jobs <- func() { c08Concurrent(c, s) }
	}
	for i := 0; i < nKill; i++ {
		s := c.Seed*104729 + int64(i)
		jobs <- func() { c08Kill(c, s) }
	}
	close(jobs)
	wg.Wait()
	// (d) durability of acknowledged Sets on the real stack: the syscall-trace rule R7 of
	// the C07 monitor (no acknowledgement while writes to wal-meta.db are not followed by
	// fdatasync), evaluated here for the stable store
	if _, err := exec.LookPath("strace"); err == nil {
		before := c.Get("acked_operations_checked")
		for i := 0; i < 2; i++ {
			c07Scenario(c, c.Seed*31337+int64(i), nil, 40, ":R7:")
		}
		c.Count("stable_ops", c.Get("acked_operations_checked")-before)
		c.Distinct("op_contexts", "strace-R7")
		// (e) I/O errors inside BoltDB's commit, injected by strace into the child's syscalls
		for i, inj := range []string{"fdatasync:error=EIO:when=5+4", "pwrite64:error=ENOSPC:when=9+7", "fdatasync:error=EIO:when=3+9", "ftruncate:error=EFBIG:when=1+1"} {
			if quick(c) && i >= 3 {
				break
			}
			c08Faulty(c, c.Seed*911+int64(i), inj)
		}
		// (f) power-loss images of the production stack replayed from the syscall trace of a
		// Set-heavy child: every acknowledged Set must be readable from every image
		before = c.Get("replay_stable_keys_checked")
		if quick(c) {
			replayPart(c, 2, 30, 2, "stable")
		} else {
			replayPart(c, 12, 80, 1, "stable")
		}
		c.Count("stable_ops", c.Get("replay_stable_keys_checked")-before)
		c.Distinct("op_contexts", "replay-power-loss")
	} else {
		c.Inconclusive("strace not available: durability of acknowledged Sets against power loss not observed")
	}
	c.Sample(map[string]any{"kind": "sequential", "note": "30-70 steps mixing Set/Get classes, C05 log templates and reopens"})
	c.Sample(map[string]any{"kind": "kill", "note": "child loops Set(k_i,v_i)+StoreLogs on real bolt, parent SIGKILLs after n acks, reopens, compares"})
}

// c08FaultyChild: Sets on real BoltDB while the parent's strace injects errors
// into fdatasync / pwrite64. Checks read-your-writes in-process and prints the
// acknowledged values for the parent's reopen check.
func c08FaultyChild(args []string) {
	dir := args[0]
	seed, _ := strconv.ParseInt(args[1], 10, 64)
	n, _ := strconv.Atoi(args[2])
	w, err := wal.Open(dir, wal.WithSegmentSize(4096))
	if err != nil {
		fmt.Println("OPENERR", err)
		os.Exit(3)
	}
	rng := rand.New(rand.NewSource(seed))
	acked := map[string]string{}
	maybe := map[string][]string{}
	errs := 0
	for i := 0; i < n; i++ {
		key := fmt.Sprintf("k%d", rng.Intn(3))
		val := fmt.Sprintf("v%d-%s", i, strings.Repeat("x", rng.Intn(3000)))
		err := w.Set([]byte(key), []byte(val))
		got, gerr := w.Get([]byte(key))
		if gerr != nil {
			fmt.Printf("GETERR %d %v\n", i, gerr)
			continue
		}
		if err == nil {
			if string(got) != val {
				fmt.Printf("VIOLATION set-acked-but-not-readable i=%d key=%s got=%d bytes want=%d bytes\n", i, key, len(got), len(val))
			}
			acked[key] = val
			maybe[key] = nil
		} else {
			errs++
			ok := string(got) == acked[key] || string(got) == val
			for _, m := range maybe[key] {
				if string(got) == m {
					ok = true
				}
			}
			if !ok {
				fmt.Printf("VIOLATION failed-set-left-garbage i=%d key=%s\n", i, key)
			}
			maybe[key] = append(maybe[key], val)
		}
	}
	for k, v := range acked {
		fmt.Printf("FINAL %s %d %x\n", k, len(v), crc32.ChecksumIEEE([]byte(v)))
		for _, m := range maybe[k] {
			fmt.Printf("MAYBE %s %d %x\n", k, len(m), crc32.ChecksumIEEE([]byte(m)))
		}
	}
	fmt.Printf("DONE sets=%d errors=%d\n", n, errs)
	w.Close()
}

// c08Faulty runs the child under strace with syscall error injection.
func c08Faulty(c *evid.Ctx, seed int64, inject string) {
	dir, err := os.MkdirTemp("", "verif-c08f-")
	if err != nil {
		return
	}
	defer os.RemoveAll(dir)
	// create the directory without faults first, so that the child's Open does no I/O that can fail
	if w0, err := drv.OpenDir(dir, drv.Cfg{SegSize: 4096}); err == nil {
		drv.CloseWAL(w0)
	}
	cmd := exec.Command("strace", "-f", "-o", "/dev/null", "-e", "trace="+strings.SplitN(inject, ":", 2)[0], "-e", "inject="+inject,
		os.Args[0], "-child", "c08-faulty", dir, fmt.Sprint(seed), "60")
	out, _ := cmd.CombinedOutput()
	final := map[string][]string{}
	sets, errs := 0, 0
	for _, line := range strings.Split(string(out), "\n") {
		f := strings.Fields(line)
		if len(f) == 0 {
			continue
		}
		switch f[0] {
		case "VIOLATION":
			c.Violation("C08:"+f[1], "with "+inject+" injected into the real BoltDB store: "+line, map[string]any{"seed": seed, "inject": inject})
		case "FINAL", "MAYBE":
			final[f[1]] = append(final[f[1]], f[2]+"/"+f[3])
		case "DONE":
			fmt.Sscanf(line, "DONE sets=%d errors=%d", &sets, &errs)
		}
	}
	if sets == 0 {
		c.Inconclusive("fault-injected child produced no result (%.200s)", out)
		return
	}
	c.Count("fault_injected_sets", int64(sets))
	c.Count("fault_injected_set_errors", int64(errs))
	c.Count("stable_ops", int64(sets))
	c.Distinct("op_contexts", "strace-inject|"+strings.SplitN(inject, ":", 2)[0]+fmt.Sprintf("|errors=%v", errs > 0))
	// reopen without faults: acknowledged values (or a later failed one) must be there
	w, err := drv.OpenDir(dir, drv.Cfg{SegSize: 4096})
	if err != nil {
		c.Violation("C08:reopen-after-injected-faults", fmt.Sprintf("Open after injected %s errors failed: %v", inject, err), map[string]any{"seed": seed})
		return
	}
	defer drv.CloseWAL(w)
	for k, cands := range final {
		got, err := w.Get([]byte(k))
		sig := fmt.Sprintf("%d/%x", len(got), crc32.ChecksumIEEE(got))
		ok := false
		for _, cd := range cands {
			if cd == sig {
				ok = true
			}
		}
		if err != nil || !ok {
			c.Violation("C08:acked-set-lost-after-injected-fault", fmt.Sprintf("after %s errors and a reopen Get(%s) = %s (err %v), acknowledged/possible values %v", inject, k, sig, err, cands), map[string]any{"seed": seed})
		}
	}
}
