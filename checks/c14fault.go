package checks

import (
	"errors"
	"fmt"
	"time"

	"github.com/hashicorp/raft"
	wal "github.com/hashicorp/raft-wal"

	"verif/internal/drv"
	"verif/internal/evid"
	"verif/internal/gen"
	"verif/internal/hooks"
	"verif/internal/model"
	"verif/internal/simfs"
)

// c14AfterFaults: Close after something went wrong earlier. One VFS / MetaStore call fails
// (before or after its effect) inside a Set, an append, a sealing append's rotation, a head or
// a tail truncation; the program carries on with a few calls (which may be refused) and then
// closes. Close must return, be final and idempotent, release every handle, and the reopened
// log must be the acknowledged one with each failed call applied in full or not at all. An
// error path that leaves a lock held, a goroutine waiting or a handle open shows here.
func c14AfterFaults(c *evid.Ctx) {
	type script struct {
		Op    string `json:"op"`
		Kind  string `json:"failing_call"`
		After bool   `json:"after_effect"`
		Nth   int    `json:"nth_call_of_that_kind"`
	}
	kinds := map[string]simfs.Kind{"MetaSet": simfs.KMetaSet, "MetaCommit": simfs.KMetaCommit, "WriteAt": simfs.KWriteAt, "Sync": simfs.KSync, "Create": simfs.KCreate, "Delete": simfs.KDelete, "MetaGet": simfs.KMetaGet}
	var scripts []script
	add := func(op string, ks ...string) {
		for _, k := range ks {
			for _, after := range []bool{false, true} {
				scripts = append(scripts, script{op, k, after, 1})
			}
		}
	}
	add("set", "MetaSet")
	add("setu64", "MetaSet")
	add("get", "MetaGet")
	add("append", "WriteAt", "Sync")
	add("append-sealing", "WriteAt", "Sync", "MetaCommit", "Create")
	add("delete-head", "MetaCommit", "Delete")
	add("delete-tail", "WriteAt", "Sync", "MetaCommit", "Delete")
	add("delete-all", "MetaCommit", "Create", "Delete")
	for i, sc := range scripts {
		e, cleanup, err := c14Setup(false, false, c.Seed*5003+int64(i))
		if err != nil {
			c.Inconclusive("after-fault setup failed: %v", err)
			return
		}
		replay := map[string]any{"scenario": "close-after-fault", "script": sc}
		h := &c10NextN{kind: kinds[sc.Kind], after: sc.After, n: 1}
		e.disk.SetHook(h)
		first, last := e.l.First, e.l.Last
		var op gen.Op
		var opErr error
		switch sc.Op {
		case "set":
			opErr = e.w.Set([]byte("k"), []byte("v1"))
		case "setu64":
			opErr = e.w.SetUint64([]byte("u"), 7)
		case "get":
			_, opErr = e.w.Get([]byte("k"))
		case "append":
			op = gen.Op{Kind: "append", Logs: []*raft.Log{gen.Entry(e.rng, last+1, "f", 20)}}
		case "append-sealing":
			op = gen.Op{Kind: "append", Logs: []*raft.Log{gen.Entry(e.rng, last+1, "f", 280)}}
		case "delete-head":
			op = gen.Op{Kind: "delete", Min: first, Max: first + 3}
		case "delete-tail":
			op = gen.Op{Kind: "delete", Min: last - 1, Max: last}
		case "delete-all":
			op = gen.Op{Kind: "delete", Min: first, Max: last}
		}
		cands := []*model.Log{e.l.Clone()}
		apply := func(op gen.Op, err error) {
			var next []*model.Log
			for _, l := range cands {
				if err != nil {
					next = append(next, l) // not applied
				}
				a := l.Clone()
				if op.Kind == "append" {
					if a.CheckAppend(op.Logs) != nil {
						continue
					}
					a.Append(op.Logs, 900, true)
				} else {
					a.DeleteRange(op.Min, op.Max)
				}
				next = append(next, a)
			}
			cands = next
		}
		if op.Kind != "" {
			r := drv.Apply(e.w, op)
			opErr = r.Err
			apply(op, r.Err)
		}
		fired := h.n == 0
		h.n = 0
		c.Count("scripts", 1)
		c.Count("close_after_fault_scripts", 1)
		if fired {
			c.Count("close_after_fault_fault_fired", 1)
		}
		// carry on: a stable read and write, a log read, one more append (any of them may be refused)
		_, _ = e.w.Get([]byte("k"))
		_ = e.w.Set([]byte("k2"), []byte("x"))
		var l raft.Log
		_ = e.w.GetLog(last, &l)
		if nl := cands[len(cands)-1]; true {
			nx := nl.Last + 1
			if nl.Empty() {
				nx = last + 1
			}
			more := gen.Op{Kind: "append", Logs: []*raft.Log{gen.Entry(e.rng, nx, "g", 16)}}
			r := drv.Apply(e.w, more)
			if r.Err == nil {
				// acknowledged: it is there in every candidate that could take it
				var next []*model.Log
				for _, cl := range cands {
					a := cl.Clone()
					if a.CheckAppend(more.Logs) == nil {
						a.Append(more.Logs, 901, true)
						next = append(next, a)
					}
				}
				if len(next) > 0 {
					cands = next
				}
			} else {
				apply(more, r.Err)
			}
		}
		// ---- Close ----
		cd := make(chan error, 1)
		go func() { cd <- e.w.Close() }()
		closed := false
		select {
		case err := <-cd:
			closed = true
			if err != nil {
				// an error from Close after a fault is not excluded by the property; it must still be final
				c.Count("close_after_fault_close_returned_error", 1)
			}
		case <-time.After(c14Watchdog):
			st := stacksMatching("raft-wal.(*WAL).Close")
			if blockedInRaftWAL(st) {
				c.Violation("C14:deadlock:close-after-fault:"+sc.Op+":"+sc.Kind, fmt.Sprintf("after %s failed (%s, after-effect=%v, call returned %v) Close never returned; it is blocked inside raft-wal", sc.Op, sc.Kind, sc.After, opErr), map[string]any{"script": sc, "stack": st})
			} else {
				c.Inconclusive("close-after-fault %+v: Close did not return within the watchdog but is not blocked inside raft-wal", sc)
			}
		}
		e.disk.SetHook(nil)
		if closed {
			post := map[string]error{}
			_, post["FirstIndex"] = e.w.FirstIndex()
			post["GetLog"] = e.w.GetLog(last, &l)
			post["StoreLogs"] = e.w.StoreLogs([]*raft.Log{gen.Entry(e.rng, 5000, "post", 8)})
			post["DeleteRange"] = e.w.DeleteRange(1, 1)
			post["Set"] = e.w.Set([]byte("k"), []byte("post"))
			_, post["Get"] = e.w.Get([]byte("k"))
			for m, err := range post {
				if !errors.Is(err, wal.ErrClosed) {
					c.Violation("C14:not-final:"+m, fmt.Sprintf("close-after-fault %+v: %s after Close returned %v, want ErrClosed", sc, m, err), replay)
				}
			}
			if err := e.w.Close(); err != nil {
				c.Violation("C14:second-close", fmt.Sprintf("close-after-fault %+v: second Close returned %v", sc, err), replay)
			}
			if f, m := e.disk.OpenHandles(); f != 0 || m != 0 {
				c.Violation("C14:handles-leaked", fmt.Sprintf("close-after-fault %+v (call returned %v): %d file handles / %d meta stores still open after Close", sc, opErr, f, m), replay)
			}
			c.Distinct("overlaps", fmt.Sprintf("fault|%s|%s|%v|fired=%v|err=%v", sc.Op, sc.Kind, sc.After, fired, opErr != nil))
			hooks.Forget(e.w)
			if err := e.open(); err != nil {
				c.Violation("C14:reopen-failed", fmt.Sprintf("close-after-fault %+v: Open after Close failed: %v", sc, err), replay)
			} else {
				probes := []uint64{first, last, last + 1, last + 2, 50}
				ok := false
				var d string
				for _, cl := range cands {
					obs := drv.Observe(e.w, model.ProbeSet(probes, cl, e.l))
					if d = cl.Diff(obs); d == "" {
						ok = true
						break
					}
				}
				if !ok {
					c.Violation("C14:state-after-reopen:close-after-fault", fmt.Sprintf("close-after-fault %+v (call returned %v): after reopen the log matches none of the %d legal states; last diff: %s", sc, opErr, len(cands), d), replay)
				}
				drv.CloseWAL(e.w)
			}
		}
		cleanup()
	}
}
