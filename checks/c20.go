package checks

import (
	"bytes"
	"fmt"
	"go/ast"
	"go/parser"
	"go/token"
	"math/rand"
	"os"
	"path/filepath"
	"runtime"
	"sort"
	"strconv"
	"strings"
	"sync"
	"sync/atomic"
	"time"

	gometrics "github.com/hashicorp/go-metrics/compat"
	"github.com/hashicorp/raft"
	wal "github.com/hashicorp/raft-wal"
	"github.com/hashicorp/raft-wal/metrics"
	"github.com/hashicorp/raft-wal/verifier"

	"verif/internal/drv"
	"verif/internal/evid"
	"verif/internal/gen"
	"verif/internal/hooks"
	"verif/internal/model"
	"verif/internal/sched"
	"verif/internal/simfs"
)

func init() {
	register("C20", &Check{Level: "exploration", Run: runC20})
}

// recCollector records every emission with its call site.
type recCollector struct {
	mu       sync.Mutex
	counters map[string]uint64
	gauges   map[string]uint64
	sites    map[string]map[string]bool // name -> file:line set
}

func newRec() *recCollector {
	return &recCollector{counters: map[string]uint64{}, gauges: map[string]uint64{}, sites: map[string]map[string]bool{}}
}

func (r *recCollector) site(name string) {
	_, file, line, ok := runtime.Caller(2)
	if !ok {
		return
	}
	s := fmt.Sprintf("%s:%d", filepath.Base(filepath.Dir(file))+"/"+filepath.Base(file), line)
	if r.sites[name] == nil {
		r.sites[name] = map[string]bool{}
	}
	r.sites[name][s] = true
}

func (r *recCollector) IncrementCounter(name string, delta uint64) {
	r.mu.Lock()
	r.counters[name] += delta
	r.site(name)
	r.mu.Unlock()
}
func (r *recCollector) SetGauge(name string, v uint64) {
	r.mu.Lock()
	r.gauges[name] = v
	r.site(name)
	r.mu.Unlock()
}
func (r *recCollector) get(name string) uint64 {
	r.mu.Lock()
	defer r.mu.Unlock()
	return r.counters[name]
}

type c20Totals struct {
	appends, entries, bytesW, reads, bytesR, sGets, sSets, headTr, tailTr uint64
	tailTruncs, delAlls, resets                                           uint64
}

func encLen(l *raft.Log) uint64 {
	var b bytes.Buffer
	(&wal.BinaryCodec{}).Encode(l, &b)
	return uint64(b.Len())
}

func tailBase(d *simfs.Disk) uint64 {
	m := d.MetaSnapshot()
	if n := len(m.State.Segments); n > 0 {
		return m.State.Segments[n-1].BaseIndex
	}
	return 0
}

// c20Sequence drives one WAL through a random sequence and compares counters.
func c20Sequence(c *evid.Ctx, seed int64, declared map[string]bool, allSites *recCollector) {
	rng := rand.New(rand.NewSource(seed))
	seg := []int{100, 160, 256, 512, 4096}[rng.Intn(5)]
	disk := simfs.New(simfs.Strict)
	rec := newRec()
	// half of the sequences also run the bundled AtomicCollector behind the recorder
	var atomicC *metrics.AtomicCollector
	if rng.Intn(2) == 0 {
		atomicC = metrics.NewAtomicCollector(wal.MetricDefinitions)
	}
	col := &teeCollector{rec: rec, all: allSites, atomic: atomicC, c: c}
	if rng.Intn(4) == 0 {
		// the other bundled collector, on an in-memory go-metrics sink
		sink := gometrics.NewInmemSink(time.Second, 10*time.Second)
		if gm, err := gometrics.New(&gometrics.Config{FilterDefault: true}, sink); err == nil {
			col.gom = metrics.NewGoMetricsCollector([]string{"wal"}, nil, gm)
			defer gm.Shutdown()
			c.Count("gometrics_collector_runs", 1)
		}
	}
	open := func() (*wal.WAL, error) { return drv.OpenSim(disk, drv.Cfg{SegSize: seg, Metrics: col}) }
	w, err := open()
	if err != nil {
		c.Violation("C20:open", err.Error(), nil)
		return
	}
	defer func() { drv.CloseWAL(w) }()
	// pending-rotation mode (a third of the sequences): the background rotation of a sealing
	// append is held queued until the next writer call waits for it - or until the WAL is
	// closed first, in which case that process never performs it and the next Open does
	var gate *sched.RotGate
	if seed%3 == 0 {
		gate = sched.NewRotGate(w)
		defer func() {
			if gate != nil {
				gate.Close()
			}
		}()
		c.Count("pending_rotation_sequences", 1)
	}
	settle := func() {
		if gate == nil {
			hooks.WaitRotation(w, drv.Watchdog)
			return
		}
		sw := w
		gate.Settle(func() (int64, int64, int64) { return hooks.Rotations(sw) }, drv.Watchdog)
		if gate.Holding() && rng.Intn(2) == 0 {
			gate.Release()
			hooks.WaitRotation(w, drv.Watchdog)
		}
	}
	l := model.NewLog()
	var t c20Totals
	start := []uint64{1, 1, 100, 5000}[rng.Intn(4)]
	var ops []string
	nops := 20 + rng.Intn(50)
	for i := 0; i < nops; i++ {
		tmpl := c05Templates[rng.Intn(len(c05Templates))]
		if rng.Intn(3) == 0 {
			tmpl = []string{"A1", "A3", "A3", "Abig"}[rng.Intn(4)]
		}
		if rng.Intn(9) == 0 {
			tmpl = []string{"Dall", "Dall", "DpreK", "DsufK", "Dbelow"}[rng.Intn(5)]
		}
		op := c05Instantiate(tmpl, l, start, rng, "m", seg)
		ops = append(ops, tmpl+"="+op.String())
		switch op.Kind {
		case "reopen":
			if gate != nil && gate.Holding() {
				c.Count("closes_with_rotation_pending", 1)
			}
			drv.CloseWAL(w)
			if gate != nil {
				gate.Close()
			}
			if w, err = open(); err != nil {
				c.Violation("C20:reopen", err.Error(), map[string]any{"ops": ops})
				return
			}
			if gate != nil {
				gate = sched.NewRotGate(w)
			}
		case "append":
			tb := tailBase(disk)
			if l.Empty() && len(op.Logs) > 0 && op.Logs[0].Index != tb {
				t.resets++
			}
			err := w.StoreLogs(op.Logs)
			settle()
			if err == nil && len(op.Logs) > 0 {
				t.appends++
				t.entries += uint64(len(op.Logs))
				for _, lg := range op.Logs {
					t.bytesW += encLen(lg)
				}
				l.Append(op.Logs, i, true)
			}
		case "delete":
			k := l.ClassifyDelete(op.Min, op.Max)
			before := l.Clone()
			err := w.DeleteRange(op.Min, op.Max)
			settle()
			if err == nil && k != model.DelMiddle {
				l.DeleteRange(op.Min, op.Max)
				removed := uint64(before.Len() - l.Len())
				switch k {
				case model.DelHead:
					t.headTr += removed
				case model.DelAll:
					t.headTr += removed
					t.delAlls++
				case model.DelTail:
					t.tailTr += removed
					t.tailTruncs++
				case model.DelNoop:
					// DeleteRange(0,x) over an empty log still goes through the head path and
					// replaces the (empty) tail segment
					if op.Min == 0 && op.Min <= op.Max && before.Empty() {
						t.delAlls++
					}
				}
			}
		}
		// reads
		for r := rng.Intn(4); r > 0; r-- {
			idx := l.First + uint64(rng.Intn(int(l.Last-l.First+3)))
			if l.Empty() {
				idx = uint64(rng.Intn(5))
			}
			var out raft.Log
			err := w.GetLog(idx, &out)
			t.reads++
			if err == nil {
				if e := l.Ents[idx]; e != nil {
					t.bytesR += encLen(e.Log)
				}
			}
		}
		if rng.Intn(4) == 0 {
			switch rng.Intn(4) {
			case 0:
				w.Set([]byte("k"), []byte("v"))
				t.sSets++
			case 1:
				w.Get([]byte("k"))
				t.sGets++
			case 2:
				w.SetUint64([]byte("u"), 7)
				t.sSets++
			default:
				w.GetUint64([]byte("u"))
				t.sGets++
			}
		}
	}
	c.Count("sequences", 1)
	c.Count("operations", int64(nops))
	if gate != nil {
		if rng.Intn(2) == 0 && gate.Holding() {
			// end on a Close that beats the queued rotation, and the Open that completes it
			c.Count("closes_with_rotation_pending", 1)
			drv.CloseWAL(w)
			gate.Close()
			gate = nil
			if w, err = open(); err != nil {
				c.Violation("C20:reopen", err.Error(), map[string]any{"ops": ops})
				return
			}
		} else {
			gate.Release()
		}
		hooks.WaitRotation(w, drv.Watchdog)
	}
	// quiescence: compare
	want := map[string]uint64{
		"log_appends": t.appends, "log_entries_written": t.entries, "log_entry_bytes_written": t.bytesW,
		"log_entries_read": t.reads, "log_entry_bytes_read": t.bytesR, "stable_gets": t.sGets, "stable_sets": t.sSets,
		"head_truncations": t.headTr, "tail_truncations": t.tailTr,
	}
	next := disk.MetaSnapshot().State.NextSegmentID
	if next >= 1+t.tailTruncs+t.delAlls+t.resets {
		want["segment_rotations"] = next - 1 - t.tailTruncs - t.delAlls - t.resets
	}
	replay := map[string]any{"seed": seed, "seg_size": seg, "ops": ops}
	for name, wv := range want {
		got := rec.get(name)
		c.Distinct("counter_checks", name+"|"+zeroClass(wv))
		if got != wv {
			c.Violation("C20:counter:"+name, fmt.Sprintf("%s = %d, true total %d (seg=%d, %d ops; segments created=%d tailTruncs=%d delAlls=%d resets=%d)", name, got, wv, seg, nops, next, t.tailTruncs, t.delAlls, t.resets), replay)
		}
	}
	rec.mu.Lock()
	for name := range rec.counters {
		if !declared[name] {
			c.Violation("C20:undeclared:"+name, "emitted counter "+name+" is not in MetricDefinitions", replay)
		}
	}
	for name := range rec.gauges {
		if !declared[name] {
			c.Violation("C20:undeclared:"+name, "emitted gauge "+name+" is not in MetricDefinitions", replay)
		}
	}
	rec.mu.Unlock()
	if atomicC != nil {
		sum := atomicC.Summary()
		for name, wv := range want {
			if sum.Counters[name] != wv {
				c.Violation("C20:atomic-collector:"+name, fmt.Sprintf("AtomicCollector %s = %d, true total %d", name, sum.Counters[name], wv), replay)
			}
		}
		c.Count("atomic_collector_runs", 1)
	}
}

func zeroClass(v uint64) string {
	if v == 0 {
		return "zero"
	}
	return "nonzero"
}

// teeCollector forwards to the recorder, the global site recorder and (guarded
// against its panic on unknown names) the bundled AtomicCollector.
type teeCollector struct {
	rec, all *recCollector
	atomic   *metrics.AtomicCollector
	gom      *metrics.GoMetricsCollector
	c        *evid.Ctx
}

// guard runs f and reports a panic of a bundled collector.
func (t *teeCollector) guard(which, name string, f func()) {
	defer func() {
		if r := recover(); r != nil {
			t.c.Violation("C20:collector-panic:"+which+":"+name, fmt.Sprintf("bundled %s panicked on metric %q: %v", which, name, r), nil)
		}
	}()
	f()
}

func (t *teeCollector) IncrementCounter(name string, d uint64) {
	t.rec.mu.Lock()
	t.rec.counters[name] += d
	t.rec.site(name)
	t.rec.mu.Unlock()
	t.all.mu.Lock()
	t.all.site(name)
	t.all.mu.Unlock()
	if t.atomic != nil {
		func() {
			defer func() {
				if r := recover(); r != nil {
					t.c.Violation("C20:collector-panic:"+name, fmt.Sprintf("bundled AtomicCollector panicked on IncrementCounter(%q): %v", name, r), nil)
				}
			}()
			t.atomic.IncrementCounter(name, d)
		}()
	}
	if t.gom != nil {
		t.guard("GoMetricsCollector", name, func() { t.gom.IncrementCounter(name, d) })
	}
}
func (t *teeCollector) SetGauge(name string, v uint64) {
	t.rec.mu.Lock()
	t.rec.gauges[name] = v
	t.rec.site(name)
	t.rec.mu.Unlock()
	t.all.mu.Lock()
	t.all.site(name)
	t.all.mu.Unlock()
	if t.atomic != nil {
		func() {
			defer func() {
				if r := recover(); r != nil {
					t.c.Violation("C20:collector-panic:"+name, fmt.Sprintf("bundled AtomicCollector panicked on SetGauge(%q): %v", name, r), nil)
				}
			}()
			t.atomic.SetGauge(name, v)
		}()
	}
	if t.gom != nil {
		t.guard("GoMetricsCollector", name, func() { t.gom.SetGauge(name, v) })
	}
}

// c20Sites lists the emitting call sites of the current tree (used only to
// report which of them the workloads executed).
func c20Sites() map[string]string {
	out := map[string]string{}
	repo := os.Getenv("VERIF_REPO")
	if repo == "" {
		repo = "/repo"
	}
	for _, dir := range []string{repo, filepath.Join(repo, "verifier")} {
		fset := token.NewFileSet()
		pkgs, err := parser.ParseDir(fset, dir, func(fi os.FileInfo) bool { return !strings.HasSuffix(fi.Name(), "_test.go") }, 0)
		if err != nil {
			continue
		}
		for _, p := range pkgs {
			for fname, f := range p.Files {
				ast.Inspect(f, func(n ast.Node) bool {
					ce, ok := n.(*ast.CallExpr)
					if !ok {
						return true
					}
					se, ok := ce.Fun.(*ast.SelectorExpr)
					if !ok || (se.Sel.Name != "IncrementCounter" && se.Sel.Name != "SetGauge") || len(ce.Args) < 1 {
						return true
					}
					name := "<non-literal>"
					if bl, ok := ce.Args[0].(*ast.BasicLit); ok {
						name, _ = strconv.Unquote(bl.Value)
					}
					pos := fset.Position(ce.Pos())
					site := fmt.Sprintf("%s/%s:%d", filepath.Base(filepath.Dir(fname)), filepath.Base(fname), pos.Line)
					out[site] = name
					return true
				})
			}
		}
	}
	return out
}

func runC20(c *evid.Ctx) {
	c.Rule("random operation sequences (C05 alphabet incl. delete-all, DeleteRange over an empty tail, high base indexes, base-index resets, reopen) with a recording collector; at quiescence every WAL counter must equal the model's total (entries, encoded bytes via the codec, calls, reads, stable gets/sets, head/tail truncation = entries actually removed, rotations = segments created - initial - tail truncations - delete-alls - base-index resets); every emitted name must be in MetricDefinitions and must not make the bundled AtomicCollector panic; the bundled GoMetricsCollector (prefix slice with spare capacity) in front of a totalling sink, with reader emissions overlapping writer emissions (one observation held inside the sink while appends emit, and a 4-reader stress), must deliver every counter total under its own name; verifier histories (leader, follower, in-flight and at-rest corruption, blocked ReportFn, appends refused once by the underlying store and sent again) do the same for the verifier's metrics; non-trivial = distinct (counter, zero/non-zero expected value) checks",
		"operations", "counter_checks")
	n := 4000
	if !quick(c) {
		n = 200000
	}
	declared := map[string]bool{}
	for _, d := range wal.MetricDefinitions.Counters {
		declared[d.Name] = true
	}
	for _, d := range wal.MetricDefinitions.Gauges {
		declared[d.Name] = true
	}
	all := newRec()
	jobs := make(chan int64, 64)
	var wg sync.WaitGroup
	for i := 0; i < runtime.NumCPU(); i++ {
		wg.Add(1)
		go func() {
			defer wg.Done()
			for s := range jobs {
				c20Sequence(c, s, declared, all)
			}
		}()
	}
	for i := 0; i < n; i++ {
		jobs <- c.Seed*1000003 + int64(i)
	}
	close(jobs)
	wg.Wait()
	// the other bundled collector with overlapping emissions
	for _, hold := range []string{"log_entries_read", "log_entry_bytes_read", ""} {
		c20GoMetrics(c, c.Seed, hold)
	}
	if !quick(c) {
		for k := int64(1); k <= 20; k++ {
			c20GoMetrics(c, c.Seed*31+k, "")
		}
	}
	c.Sample(map[string]any{"sequence_seed": c.Seed * 1000003, "note": "20-70 ops of the C05 template alphabet plus random reads and stable ops"})
	// verifier metrics
	vdecl := map[string]bool{}
	for _, d := range verifier.MetricDefinitions.Counters {
		vdecl[d.Name] = true
	}
	for _, d := range verifier.MetricDefinitions.Gauges {
		vdecl[d.Name] = true
	}
	c20Verifier(c, vdecl, all)
	// coverage gate: which emitting call sites did the workloads execute?
	sites := c20Sites()
	executed := map[string]bool{}
	all.mu.Lock()
	for _, ss := range all.sites {
		for s := range ss {
			executed[s] = true
		}
	}
	all.mu.Unlock()
	var missing []string
	for site, name := range sites {
		if !executed[site] {
			missing = append(missing, site+" ("+name+")")
		}
	}
	sort.Strings(missing)
	c.Extra("emitting_call_sites_in_source", len(sites))
	c.Extra("emitting_call_sites_executed", len(sites)-len(missing))
	if len(missing) > 0 {
		c.Inconclusive("emitting call sites not executed by the workloads (their names were not checked at run time): %v", missing)
	}
}

// c20Verifier runs small verifier histories that reach every verifier metric.
func c20Verifier(c *evid.Ctx, declared map[string]bool, all *recCollector) {
	isCP := func(l *raft.Log) (bool, error) { return len(l.Data) > 0 && l.Data[0] == 'C', nil }
	for round := 0; round < 8; round++ {
		rec := newRec()
		atomicC := metrics.NewAtomicCollector(verifier.MetricDefinitions)
		col := &teeCollector{rec: rec, all: all, atomic: atomicC, c: c}
		block := make(chan struct{})
		var reports []verifier.VerificationReport
		var mu sync.Mutex
		reportFn := func(r verifier.VerificationReport) {
			if round == 3 {
				<-block
			}
			mu.Lock()
			reports = append(reports, r)
			mu.Unlock()
		}
		leaderStore := raft.NewInmemStore()
		folStore := raft.NewInmemStore()
		var fol raft.LogStore = folStore
		if round == 2 {
			fol = &corruptingStore{LogStore: folStore, at: 4}
		}
		// rounds 6 and 7: the underlying store refuses some appends once (nothing is stored);
		// the same entries are then sent again. Refused attempts must not count.
		lfail := &refusingStore{LogStore: leaderStore}
		ffail := &refusingStore{LogStore: fol}
		leader := verifier.NewLogStore(lfail, isCP, func(verifier.VerificationReport) {}, col)
		follower := verifier.NewLogStore(ffail, isCP, reportFn, col)
		cps := uint64(0)
		gaveUp := false
		for i := uint64(1); i <= 40; i++ {
			l := &raft.Log{Index: i, Term: 1, Type: raft.LogCommand, Data: []byte(fmt.Sprintf("d%d", i))}
			if i%5 == 0 {
				l.Data = []byte("C")
				cps++
			}
			if round == 7 && i%5 <= 1 {
				lfail.refuse.Store(true)
				if err := leader.StoreLogs([]*raft.Log{model.CopyLog(l)}); err == nil {
					c.Violation("C20:verifier-store", "the underlying store refused the append but the middleware returned nil", nil)
				}
				c.Count("verifier_refused_appends", 1)
			}
			if err := leader.StoreLogs([]*raft.Log{l}); err != nil {
				c.Violation("C20:verifier-store", err.Error(), nil)
			}
			fl := model.CopyLog(l)
			if round >= 6 && i%5 <= 1 {
				ffail.refuse.Store(true)
				if err := follower.StoreLogs([]*raft.Log{model.CopyLog(fl)}); err == nil {
					c.Violation("C20:verifier-store", "the underlying store refused the append but the middleware returned nil", nil)
				}
				c.Count("verifier_refused_appends", 1)
			}
			if round == 1 && i == 7 {
				fl.Data = []byte("corrupted in flight")
			}
			if err := follower.StoreLogs([]*raft.Log{fl}); err != nil {
				c.Violation("C20:verifier-store", err.Error(), nil)
			}
			if round != 3 && !gaveUp {
				// let the verifier drain so that no report is dropped in these rounds (after one
				// timeout the counters are judged as they are instead of waiting again every step)
				if !waitFor(func() bool {
					return rec.get("ranges_verified")+rec.get("dropped_reports") >= countCP(rec)
				}) {
					gaveUp = true
				}
			}
		}
		if round == 3 {
			close(block)
		}
		waitFor(func() bool {
			return rec.get("ranges_verified")+rec.get("dropped_reports") >= rec.get("checkpoints_written")
		})
		leader.Close()
		follower.Close()
		rec.mu.Lock()
		for name := range rec.counters {
			if !declared[name] {
				c.Violation("C20:undeclared:"+name, "verifier emitted counter "+name+" which is not in verifier.MetricDefinitions", nil)
			}
			c.Distinct("counter_checks", "verifier:"+name)
		}
		cw, rv, dr := rec.counters["checkpoints_written"], rec.counters["ranges_verified"], rec.counters["dropped_reports"]
		rec.mu.Unlock()
		if cw != 2*cps {
			c.Violation("C20:counter:checkpoints_written", fmt.Sprintf("checkpoints_written=%d, %d checkpoints were stored through two middlewares", cw, cps), nil)
		}
		if rv+dr != cw {
			c.Violation("C20:counter:verifier-accounting", fmt.Sprintf("ranges_verified(%d)+dropped_reports(%d) != checkpoints_written(%d) at quiescence", rv, dr, cw), nil)
		}
		c.Count("verifier_histories", 1)
		c.Count("operations", 80)
		_ = gen.Brief
	}
}

func countCP(r *recCollector) uint64 { return r.get("checkpoints_written") }

func waitFor(cond func() bool) bool {
	deadline := time.Now().Add(20 * time.Second)
	for !cond() {
		if time.Now().After(deadline) {
			return false
		}
		time.Sleep(50 * time.Microsecond)
	}
	return true
}

// refusingStore fails the next StoreLogs once when told to; nothing is stored.
type refusingStore struct {
	raft.LogStore
	refuse atomic.Bool
}

func (s *refusingStore) StoreLogs(ls []*raft.Log) error {
	if s.refuse.CompareAndSwap(true, false) {
		return fmt.Errorf("refusingStore: injected transient append failure")
	}
	return s.LogStore.StoreLogs(ls)
}
func (s *refusingStore) StoreLog(l *raft.Log) error { return s.StoreLogs([]*raft.Log{l}) }

// corruptingStore returns an altered entry for one index (at-rest corruption).
type corruptingStore struct {
	raft.LogStore
	at uint64
}

func (s *corruptingStore) GetLog(i uint64, l *raft.Log) error {
	err := s.LogStore.GetLog(i, l)
	if err == nil && i == s.at {
		l.Data = append([]byte("X"), l.Data...)
	}
	return err
}

// ---- the bundled GoMetricsCollector under concurrent emission ----

// c20Sink is a go-metrics sink that totals counters by the name it is handed, and can
// hold one observation of a chosen name inside the sink while other emissions proceed.
type c20Sink struct {
	mu       sync.Mutex
	counters map[string]float64
	gauges   map[string]float64
	holdName string
	held     chan struct{} // closed when an observation of holdName is inside the sink
	release  chan struct{}
	didHold  bool
}

func (s *c20Sink) SetGauge(key []string, val float32) { s.SetGaugeWithLabels(key, val, nil) }
func (s *c20Sink) SetGaugeWithLabels(key []string, val float32, _ []gometrics.Label) {
	s.mu.Lock()
	s.gauges[strings.Join(key, ".")] = float64(val)
	s.mu.Unlock()
}
func (s *c20Sink) EmitKey(key []string, val float32)     {}
func (s *c20Sink) IncrCounter(key []string, val float32) { s.IncrCounterWithLabels(key, val, nil) }
func (s *c20Sink) IncrCounterWithLabels(key []string, val float32, _ []gometrics.Label) {
	s.mu.Lock()
	hold := !s.didHold && s.holdName != "" && len(key) > 0 && key[len(key)-1] == s.holdName
	if hold {
		s.didHold = true
	}
	s.mu.Unlock()
	if hold {
		close(s.held)
		<-s.release
	}
	// the key is read only now: a collector that hands out a shared backing array has
	// had it overwritten by the emissions that ran in the meantime
	name := strings.Join(key, ".")
	s.mu.Lock()
	s.counters[name] += float64(val)
	s.mu.Unlock()
}
func (s *c20Sink) AddSample(key []string, val float32)                                     {}
func (s *c20Sink) AddSampleWithLabels(key []string, val float32, labels []gometrics.Label) {}

// c20GoMetrics: a WAL whose collector is the bundled GoMetricsCollector (prefix slice
// with spare capacity, as produced by append(base, "wal")) in front of a sink; emissions
// from readers overlap emissions from the writer. Every counter total seen by the sink
// must equal what the WAL emitted (recorded at the Collector interface).
func c20GoMetrics(c *evid.Ctx, seed int64, hold string) {
	sink := &c20Sink{counters: map[string]float64{}, gauges: map[string]float64{}, holdName: hold, held: make(chan struct{}), release: make(chan struct{})}
	gm, err := gometrics.New(&gometrics.Config{FilterDefault: true}, sink)
	if err != nil {
		c.Inconclusive("go-metrics instance: %v", err)
		return
	}
	defer gm.Shutdown()
	prefix := append(make([]string, 0, 8), "app", "wal")
	rec := newRec()
	col := &teeCollector{rec: rec, all: newRec(), c: c, gom: metrics.NewGoMetricsCollector(prefix, nil, gm)}
	w, err := drv.OpenSim(simfs.New(simfs.Strict), drv.Cfg{SegSize: 4096, Metrics: col})
	if err != nil {
		c.Violation("C20:open", err.Error(), nil)
		return
	}
	defer drv.CloseWAL(w)
	rng := rand.New(rand.NewSource(seed))
	store := func(i uint64) bool {
		if err := w.StoreLogs([]*raft.Log{gen.Entry(rng, i, "gm", 40+rng.Intn(60))}); err != nil {
			c.Violation("C20:store", err.Error(), nil)
			return false
		}
		return true
	}
	for i := uint64(1); i <= 5; i++ {
		if !store(i) {
			return
		}
	}
	var wg sync.WaitGroup
	if hold != "" {
		// directed: one read's observation is held inside the sink while appends emit
		wg.Add(1)
		go func() {
			defer wg.Done()
			var l raft.Log
			w.GetLog(3, &l)
		}()
		select {
		case <-sink.held:
			c.Count("gometrics_observations_held_in_sink", 1)
		case <-time.After(10 * time.Second):
			c.Inconclusive("no %s observation reached the sink", hold)
		}
		for i := uint64(6); i <= 8; i++ {
			store(i)
		}
		close(sink.release)
		wg.Wait()
	} else {
		close(sink.release)
		var stop atomic.Bool
		for r := 0; r < 4; r++ {
			wg.Add(1)
			go func(r int) {
				defer wg.Done()
				var l raft.Log
				for i := 0; !stop.Load(); i++ {
					w.GetLog(uint64(1+i%5), &l)
				}
			}(r)
		}
		for i := uint64(6); i <= 1500; i++ {
			if !store(i) {
				break
			}
		}
		stop.Store(true)
		wg.Wait()
	}
	hooks.WaitRotation(w, drv.Watchdog)
	rec.mu.Lock()
	want := map[string]uint64{}
	for k, v := range rec.counters {
		want[k] = v
	}
	rec.mu.Unlock()
	sink.mu.Lock()
	defer sink.mu.Unlock()
	names := map[string]bool{}
	for k := range want {
		names["app.wal."+k] = true
	}
	for k := range sink.counters {
		names[k] = true
	}
	mode := "stress"
	if hold != "" {
		mode = "held:" + hold
	}
	for k := range names {
		wv := float64(want[strings.TrimPrefix(k, "app.wal.")])
		if !strings.HasPrefix(k, "app.wal.") {
			wv = 0
		}
		c.Count("gometrics_counter_checks", 1)
		c.Distinct("counter_checks", "gometrics|"+k+fmt.Sprint(wv != 0))
		if wv < 1<<24 && sink.counters[k] != wv {
			c.Violation("C20:gometrics-total:"+strings.TrimPrefix(k, "app.wal."), fmt.Sprintf("through the bundled GoMetricsCollector (%s, emissions overlapping) the sink's total for %s is %v but the WAL emitted %v", mode, k, sink.counters[k], wv),
				map[string]any{"seed": seed, "mode": mode})
		}
	}
	c.Count("gometrics_concurrent_runs", 1)
}
