package checks

import (
	"errors"
	"fmt"
	"math/rand"
	"os"
	"sort"
	"strings"
	"time"

	"github.com/hashicorp/raft"
	"github.com/hashicorp/raft-wal/segment"

	"verif/internal/drv"
	"verif/internal/evid"
	"verif/internal/gen"
	"verif/internal/hooks"
	"verif/internal/sched"
	"verif/internal/simfs"
)

// c13Pinning: a reader holding a reference to the old state is parked while a
// truncation drops its segment. Once DeleteRange has returned AND the reader has
// finished, the files of all wholly deleted segments must be gone; without a
// reader they must be gone as soon as DeleteRange returns.
func c13Pinning(c *evid.Ctx) {
	listingVsMeta := func(d *simfs.Disk) (extra, missing []string) {
		want := map[string]bool{}
		for _, s := range d.MetaSnapshot().State.Segments {
			want[segment.FileName(s)] = true
		}
		for _, n := range d.List() {
			if !want[n] {
				extra = append(extra, n)
			}
			delete(want, n)
		}
		for n := range want {
			missing = append(missing, n)
		}
		sort.Strings(missing)
		return
	}
	reps := 2
	if !quick(c) {
		reps = 20
	}
	for r := 0; r < reps; r++ {
		for _, kind := range []string{"head", "tail", "all"} {
			for _, point := range []string{"", "acquireState.loaded", "GetLog.acquired", "readFrame.beforeRead", "offsetForFrame.checked"} {
				rng := rand.New(rand.NewSource(c.Seed*31 + int64(r)*7 + int64(len(kind)+len(point))))
				disk := simfs.New(simfs.Strict)
				w, err := drv.OpenSim(disk, drv.Cfg{SegSize: 300})
				if err != nil {
					c.Violation("C13:open", err.Error(), nil)
					return
				}
				idx := uint64(1)
				for b := 0; b < 6; b++ {
					var logs []*raft.Log
					for i := 0; i < 2; i++ {
						logs = append(logs, gen.Entry(rng, idx, "p", 60))
						idx++
					}
					if rr := drv.Apply(w, gen.Op{Kind: "append", Logs: logs}); rr.Err != nil {
						c.Violation("C13:append", rr.Err.Error(), nil)
						drv.CloseWAL(w)
						return
					}
				}
				last := idx - 1
				var min, max, readIdx uint64
				switch kind {
				case "head":
					min, max, readIdx = 1, 6, 2
				case "tail":
					min, max, readIdx = 5, last, last
				default:
					min, max, readIdx = 1, last, 3
				}
				before := len(disk.List())
				ctl := sched.New()
				remove := ctl.Install()
				done := make(chan error, 1)
				var park *sched.Parking
				if point != "" {
					park = ctl.ParkAt("reader", point, 0)
					go func() {
						ctl.Tag("reader")
						var l raft.Log
						done <- w.GetLog(readIdx, &l)
					}()
					if !park.WaitReached(2 * time.Second) {
						park.Release()
						<-done
						remove()
						drv.CloseWAL(w)
						c.Count("pinning_point_not_on_path", 1)
						continue
					}
				}
				if point == "acquireState.loaded" && park != nil {
					// the reader has loaded the old state but holds no reference yet. Let the
					// truncation publish the new state and stop before it drops its own reference on
					// the old one; the reader then takes its reference, notices the state was replaced
					// and retries - it must give that reference back.
					wp := ctl.ParkAt("writer", "mutate.afterStore", 0)
					werr := make(chan error, 1)
					go func() {
						ctl.Tag("writer")
						werr <- w.DeleteRange(min, max)
					}()
					if wp.WaitReached(10 * time.Second) {
						park.Release()
						select {
						case <-done:
						case <-time.After(60 * time.Second):
							c.Violation("C13:pinned-reader-stuck", "reader did not return after release", map[string]any{"kind": kind, "reader_parked_at": point})
						}
						park = nil
						c.Count("reader_retry_interleavings", 1)
					}
					wp.Release()
					err = <-werr
				} else {
					err = w.DeleteRange(min, max)
				}
				hooks.WaitRotation(w, drv.Watchdog)
				replay := map[string]any{"kind": kind, "reader_parked_at": point, "range": []uint64{min, max}}
				if err != nil {
					c.Violation("C13:pinning-delete-error", err.Error(), replay)
				}
				pinnedFiles := len(disk.List())
				if park != nil {
					park.Release()
					select {
					case <-done:
					case <-time.After(60 * time.Second):
						c.Violation("C13:pinned-reader-stuck", "reader did not return after release", replay)
					}
				}
				remove()
				extra, missing := listingVsMeta(disk)
				c.Count("pinning_scripts", 1)
				c.Count("images", 1)
				c.Distinct("c13_nontrivial", fmt.Sprintf("pin|%s|%s|files %d->%d->%d", kind, point, before, pinnedFiles, len(disk.List())))
				if len(extra) > 0 || len(missing) > 0 {
					c.Violation("C13:files-remain-after-delete:"+kind+":pinned="+fmt.Sprint(point != ""),
						fmt.Sprintf("after DeleteRange(%d,%d) returned and the reader (parked at %q) finished, the directory differs from the metadata: extra %v missing %v", min, max, point, extra, missing), replay)
				}
				drv.CloseWAL(w)
			}
		}
	}
}

// c13CreateFault implements simfs.Hook: the next Create fails, either before its effect
// (no file) or after it (the file exists but the caller is told it failed).
type c13CreateFault struct {
	armed  bool
	after  bool
	fired  int
	create []string // names passed to Create, in order
}

func (h *c13CreateFault) Pre(d *simfs.Disk, cl simfs.Call) error {
	if cl.Kind == simfs.KCreate {
		h.create = append(h.create, cl.Name)
		if h.armed && !h.after {
			h.armed = false
			h.fired++
			return simfs.ErrInjected
		}
	}
	return nil
}
func (h *c13CreateFault) Mid(d *simfs.Disk, cl simfs.Call) {}
func (h *c13CreateFault) Post(d *simfs.Disk, cl simfs.Call) error {
	if cl.Kind == simfs.KCreate && h.armed && h.after {
		h.armed = false
		h.fired++
		return simfs.ErrInjected
	}
	return nil
}

// c13FailedCreate: a segment-creating transaction (delete-all, base-index reset, tail
// truncation, rotation) whose Create fails - leaving or not leaving the file behind -
// is retried in the same process. No name may ever be passed to Create twice in the
// lifetime of the directory, the online identity monitor must stay silent, the retry
// must not collide with a leftover file, and after a reopen the directory must equal
// the committed metadata.
func c13FailedCreate(c *evid.Ctx) {
	for _, kind := range []string{"delete-all", "delete-tail", "reset", "rotate"} {
		for _, after := range []bool{true, false} {
			for _, retries := range []int{1, 2} {
				rng := rand.New(rand.NewSource(c.Seed*131 + int64(len(kind)) + int64(retries)))
				disk := simfs.New(simfs.Strict)
				h := &c13CreateFault{after: after}
				disk.SetHook(h)
				w, err := drv.OpenSim(disk, drv.Cfg{SegSize: 300})
				if err != nil {
					c.Violation("C13:open", err.Error(), nil)
					return
				}
				replay := map[string]any{"kind": kind, "file_left_behind": after, "retries": retries}
				idx := uint64(1)
				app := func(n int) error {
					var logs []*raft.Log
					for i := 0; i < n; i++ {
						logs = append(logs, gen.Entry(rng, idx+uint64(i), "f", 60))
					}
					rr := drv.Apply(w, gen.Op{Kind: "append", Logs: logs})
					if rr.Err == nil {
						idx += uint64(n)
					}
					return rr.Err
				}
				if kind != "reset" {
					for b := 0; b < 5; b++ {
						if err := app(2); err != nil {
							c.Violation("C13:append", err.Error(), replay)
						}
					}
				}
				op := func() error {
					switch kind {
					case "delete-all":
						return w.DeleteRange(1, idx-1)
					case "delete-tail":
						err := w.DeleteRange(4, idx-1)
						if err == nil {
							idx = 4
						}
						return err
					case "reset":
						// first append of an empty log at another index re-creates the first segment
						idx = 500
						return app(1)
					default:
						// an append that fills the tail: the rotation runs in the background
						err := app(3)
						hooks.WaitRotation(w, drv.Watchdog)
						return err
					}
				}
				for r := 0; r < retries; r++ {
					h.armed = true
					op() // the failing attempt; whether the call itself reports the error depends on the path
					hooks.WaitRotation(w, drv.Watchdog)
				}
				h.armed = false
				var retryErr error
				if kind == "rotate" {
					retryErr = app(3)
					hooks.WaitRotation(w, drv.Watchdog)
					if retryErr == nil {
						retryErr = app(3)
						hooks.WaitRotation(w, drv.Watchdog)
					}
				} else {
					retryErr = op()
					if retryErr == nil {
						retryErr = app(2)
					}
				}
				c.Count("failed_create_scripts", 1)
				c.Count("images", 1)
				c.Distinct("c13_nontrivial", fmt.Sprintf("failed-create|%s|left=%v|fired=%d", kind, after, h.fired))
				seen := map[string]int{}
				for _, n := range h.create {
					seen[n]++
					if seen[n] == 2 {
						c.Violation("C13:file-name-reused:"+kind, fmt.Sprintf("segment file name %s was passed to Create twice in the lifetime of the directory (after a failed %s, file left behind: %v)", n, kind, after), replay)
					}
				}
				for _, v := range disk.IDViolations {
					c.Violation("C13:id-rule:"+kind, "segment identity rule broken after a failed Create: "+v, replay)
				}
				if retryErr != nil {
					c.Count("retries_refused_for_another_reason", 1) // e.g. a tail left sealed by a failed rotation refuses appends until reopened
				}
				if retryErr != nil && h.fired > 0 && (errors.Is(retryErr, os.ErrExist) || strings.Contains(retryErr.Error(), "exist")) {
					c.Violation("C13:retry-after-failed-create:"+kind, fmt.Sprintf("after a failed Create (file left behind: %v) the retried %s collided with an existing file: %v", after, kind, retryErr), replay)
				}
				drv.CloseWAL(w)
				disk.SetHook(nil)
				w, err = drv.OpenSim(disk, drv.Cfg{SegSize: 300})
				if err != nil {
					c.Violation("C13:reopen-after-failed-create:"+kind, err.Error(), replay)
					continue
				}
				want := map[string]bool{}
				for _, s := range disk.MetaSnapshot().State.Segments {
					want[segment.FileName(s)] = true
				}
				var extra []string
				for _, n := range disk.List() {
					if !want[n] {
						extra = append(extra, n)
					}
					delete(want, n)
				}
				if len(extra) > 0 || len(want) > 0 {
					c.Violation("C13:listing-after-failed-create:"+kind, fmt.Sprintf("after a failed Create, retry and reopen the directory differs from the metadata: extra %v, %d missing", extra, len(want)), replay)
				}
				drv.CloseWAL(w)
			}
		}
	}
}
