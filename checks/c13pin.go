package checks

import (
	"fmt"
	"math/rand"
	"sort"
	"time"

	"github.com/hashicorp/raft"
	"github.com/hashicorp/raft-wal/segment"

	"verif/internal/drv"
	"verif/internal/evid"
	"verif/internal/gen"
	"verif/internal/hooks"
	"verif/internal/sched"
	"verif/internal/simfs"
)

// c13Pinning: a reader holding a reference to the old state is parked while a
// truncation drops its segment. Once DeleteRange has returned AND the reader has
// finished, the files of all wholly deleted segments must be gone; without a
// reader they must be gone as soon as DeleteRange returns.
func c13Pinning(c *evid.Ctx) {
	listingVsMeta := func(d *simfs.Disk) (extra, missing []string) {
		want := map[string]bool{}
		for _, s := range d.MetaSnapshot().State.Segments {
			want[segment.FileName(s)] = true
		}
		for _, n := range d.List() {
			if !want[n] {
				extra = append(extra, n)
			}
			delete(want, n)
		}
		for n := range want {
			missing = append(missing, n)
		}
		sort.Strings(missing)
		return
	}
	reps := 2
	if !quick(c) {
		reps = 20
	}
	for r := 0; r < reps; r++ {
		for _, kind := range []string{"head", "tail", "all"} {
			for _, point := range []string{"", "GetLog.acquired", "readFrame.beforeRead", "offsetForFrame.checked"} {
				rng := rand.New(rand.NewSource(c.Seed*31 + int64(r)*7 + int64(len(kind)+len(point))))
				disk := simfs.New(simfs.Strict)
				w, err := drv.OpenSim(disk, drv.Cfg{SegSize: 300})
				if err != nil {
					c.Violation("C13:open", err.Error(), nil)
					return
				}
				idx := uint64(1)
				for b := 0; b < 6; b++ {
					var logs []*raft.Log
					for i := 0; i < 2; i++ {
						logs = append(logs, gen.Entry(rng, idx, "p", 60))
						idx++
					}
					if rr := drv.Apply(w, gen.Op{Kind: "append", Logs: logs}); rr.Err != nil {
						c.Violation("C13:append", rr.Err.Error(), nil)
						drv.CloseWAL(w)
						return
					}
				}
				last := idx - 1
				var min, max, readIdx uint64
				switch kind {
				case "head":
					min, max, readIdx = 1, 6, 2
				case "tail":
					min, max, readIdx = 5, last, last
				default:
					min, max, readIdx = 1, last, 3
				}
				before := len(disk.List())
				ctl := sched.New()
				remove := ctl.Install()
				done := make(chan error, 1)
				var park *sched.Parking
				if point != "" {
					park = ctl.ParkAt("reader", point, 0)
					go func() {
						ctl.Tag("reader")
						var l raft.Log
						done <- w.GetLog(readIdx, &l)
					}()
					if !park.WaitReached(2 * time.Second) {
						park.Release()
						<-done
						remove()
						drv.CloseWAL(w)
						c.Count("pinning_point_not_on_path", 1)
						continue
					}
				}
				err = w.DeleteRange(min, max)
				hooks.WaitRotation(w, drv.Watchdog)
				replay := map[string]any{"kind": kind, "reader_parked_at": point, "range": []uint64{min, max}}
				if err != nil {
					c.Violation("C13:pinning-delete-error", err.Error(), replay)
				}
				pinnedFiles := len(disk.List())
				if park != nil {
					park.Release()
					select {
					case <-done:
					case <-time.After(15 * time.Second):
						c.Violation("C13:pinned-reader-stuck", "reader did not return after release", replay)
					}
				}
				remove()
				extra, missing := listingVsMeta(disk)
				c.Count("pinning_scripts", 1)
				c.Count("images", 1)
				c.Distinct("c13_nontrivial", fmt.Sprintf("pin|%s|%s|files %d->%d->%d", kind, point, before, pinnedFiles, len(disk.List())))
				if len(extra) > 0 || len(missing) > 0 {
					c.Violation("C13:files-remain-after-delete:"+kind+":pinned="+fmt.Sprint(point != ""),
						fmt.Sprintf("after DeleteRange(%d,%d) returned and the reader (parked at %q) finished, the directory differs from the metadata: extra %v missing %v", min, max, point, extra, missing), replay)
				}
				drv.CloseWAL(w)
			}
		}
	}
}
