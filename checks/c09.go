package checks

import (
	"bytes"
	"encoding/json"
	"fmt"
	"io"
	"math/rand"
	"os"
	"path/filepath"
	"runtime"
	"sort"
	"strings"
	"sync"
	"time"
	"verif/internal/hooks"
	"verif/internal/sched"

	"github.com/hashicorp/raft"
	wal "github.com/hashicorp/raft-wal"
	"github.com/hashicorp/raft-wal/types"
	"go.etcd.io/bbolt"

	"verif/internal/drv"
	"verif/internal/evid"
	"verif/internal/fmtspec"
	"verif/internal/gen"
	"verif/internal/model"
	"verif/internal/simfs"
)

func init() {
	register("C09", &Check{Level: "exploration", Run: runC09})
}

type c09Seg struct {
	base, id uint64
	batches  []fmtspec.Batch // as the harness recorded them (payloads, HasIndex)
}

func encPayload(l *raft.Log) []byte {
	var b bytes.Buffer
	(&wal.BinaryCodec{}).Encode(l, &b)
	return b.Bytes()
}

// c09Verify checks one directory image against the harness's record.
func c09Verify(c *evid.Ctx, files map[string][]byte, st types.PersistentState, recs map[uint64]*c09Seg, replay map[string]any) bool {
	ok := true
	bad := func(sig, desc string) {
		ok = false
		c.Violation(sig, desc, replay)
	}
	listed := map[string]bool{}
	for i, si := range st.Segments {
		name := fmtspec.FileName(si.BaseIndex, si.ID)
		listed[name] = true
		b, exists := files[name]
		if !exists {
			bad("C09:file-name", fmt.Sprintf("segment id=%d base=%d is in the metadata but no file named %s exists (files: %v)", si.ID, si.BaseIndex, name, keys(files)))
			continue
		}
		c.Count("segment_files_checked", 1)
		rec := recs[si.ID]
		sealed := !si.SealTime.IsZero()
		if rec == nil || len(rec.batches) == 0 {
			// nothing was ever committed here: nothing but zeros may be in the file
			for _, x := range b {
				if x != 0 {
					bad("C09:bytes-in-empty-segment", fmt.Sprintf("%s has had no acknowledged batch but holds non-zero bytes", name))
					break
				}
			}
			continue
		}
		seg, err := fmtspec.Decode(b)
		if err != nil {
			bad("C09:decode:"+errShape(err), fmt.Sprintf("%s does not parse under the README layout: %v", name, err))
			continue
		}
		if seg.Header.BaseIndex != si.BaseIndex || seg.Header.SegmentID != si.ID || seg.Header.Codec != si.Codec {
			bad("C09:header-mismatch", fmt.Sprintf("%s header (base=%d id=%d codec=%d) disagrees with metadata (base=%d id=%d codec=%d)", name, seg.Header.BaseIndex, seg.Header.SegmentID, seg.Header.Codec, si.BaseIndex, si.ID, si.Codec))
		}
		// one commit frame per acknowledged batch, same grouping, same payloads
		if len(seg.Batches) != len(rec.batches) {
			bad("C09:batch-count", fmt.Sprintf("%s holds %d commit frames, %d batches were acknowledged into it", name, len(seg.Batches), len(rec.batches)))
			continue
		}
		nEntries := 0
		var allOffsets []uint32
		for bi, got := range seg.Batches {
			want := rec.batches[bi]
			if len(got.Entries) != len(want.Entries) {
				bad("C09:batch-shape", fmt.Sprintf("%s batch %d has %d entry frames, acknowledged batch had %d entries", name, bi, len(got.Entries), len(want.Entries)))
				break
			}
			for ei := range got.Entries {
				if !bytes.Equal(got.Entries[ei], want.Entries[ei]) {
					bad("C09:payload", fmt.Sprintf("%s batch %d entry %d payload differs from the codec's encoding of the submitted log", name, bi, ei))
				}
				c.Distinct("padding_residues", fmt.Sprint(len(got.Entries[ei])%8))
			}
			nEntries += len(got.Entries)
			allOffsets = append(allOffsets, got.EntryOffsets...)
			last := bi == len(seg.Batches)-1
			if got.HasIndex && !last {
				bad("C09:index-not-last", fmt.Sprintf("%s has an index frame in batch %d which is not the last", name, bi))
			}
			c.Distinct("batch_shapes", fmt.Sprintf("n=%d|index=%v|sealed=%v", min(len(got.Entries), 4), got.HasIndex, sealed))
			c.Count("frames_entry", int64(len(got.Entries)))
			c.Count("frames_commit", 1)
			if got.HasIndex {
				c.Count("frames_index", 1)
			}
		}
		lastB := seg.Batches[len(seg.Batches)-1]
		if sealed != lastB.HasIndex {
			bad("C09:seal-vs-index", fmt.Sprintf("%s: metadata sealed=%v but the last batch has index frame=%v", name, sealed, lastB.HasIndex))
		}
		if sealed && lastB.HasIndex {
			if si.IndexStart != uint64(lastB.IndexPayload) {
				bad("C09:indexstart", fmt.Sprintf("%s: metadata IndexStart=%d, the index frame's payload starts at %d", name, si.IndexStart, lastB.IndexPayload))
			}
			if len(lastB.Index) != nEntries {
				bad("C09:index-length", fmt.Sprintf("%s: index has %d offsets for %d entries", name, len(lastB.Index), nEntries))
			} else {
				for k := range lastB.Index {
					if lastB.Index[k] != allOffsets[k] {
						bad("C09:index-offsets", fmt.Sprintf("%s: index[%d]=%d but entry %d's frame is at %d", name, k, lastB.Index[k], k, allOffsets[k]))
						break
					}
				}
			}
			c.Count("sealed_files_checked", 1)
			if i == len(st.Segments)-1 {
				bad("C09:sealed-tail-in-metadata", name+" is sealed but last in the metadata")
			}
		}
		// byte-for-byte reproduction by the independent encoder
		want := fmtspec.Encode(fmtspec.Header{BaseIndex: si.BaseIndex, SegmentID: si.ID, Codec: si.Codec}, rec.batches)
		if len(b) < len(want) || !bytes.Equal(b[:len(want)], want) {
			at := 0
			for at < len(want) && at < len(b) && b[at] == want[at] {
				at++
			}
			bad("C09:bytes-differ", fmt.Sprintf("%s differs from the independent encoding at offset %d (file %d bytes, encoding %d bytes)", name, at, len(b), len(want)))
		} else {
			c.Count("files_reproduced_byte_for_byte", 1)
		}
		for k := len(want); k < len(b); k++ {
			if b[k] != 0 {
				bad("C09:trailing-bytes", fmt.Sprintf("%s has non-zero byte at %d after its last commit frame (no batch was in flight)", name, k))
				break
			}
		}
	}
	for n := range files {
		if strings.HasSuffix(n, ".wal") && !listed[n] {
			bad("C09:unlisted-file", "file "+n+" is not in the metadata")
		}
	}
	return ok
}

func keys(m map[string][]byte) []string {
	var k []string
	for n := range m {
		k = append(k, n)
	}
	sort.Strings(k)
	return k
}

func errShape(err error) string {
	s := err.Error()
	for _, k := range []string{"magic", "version", "reserved", "padding", "CRC", "unknown type", "runs past", "multiple of 4", "after an index", "shorter"} {
		if strings.Contains(s, k) {
			return strings.ReplaceAll(k, " ", "-")
		}
	}
	return "other"
}

// c09FailNextWrite fails the next WriteAt (before any effect) once armed.
type c09FailNextWrite struct {
	armed bool
	fired int
}

func (h *c09FailNextWrite) Pre(d *simfs.Disk, c simfs.Call) error {
	if h.armed && c.Kind == simfs.KWriteAt {
		h.armed = false
		h.fired++
		return simfs.ErrInjected
	}
	return nil
}
func (h *c09FailNextWrite) Mid(*simfs.Disk, simfs.Call)        {}
func (h *c09FailNextWrite) Post(*simfs.Disk, simfs.Call) error { return nil }

// c09Workload runs a random workload and verifies the resulting files.
func c09Workload(c *evid.Ctx, seed int64) {
	rng := rand.New(rand.NewSource(seed))
	seg := []int{256, 400, 512, 1024, 4096, 16384}[rng.Intn(6)]
	real := rng.Intn(8) == 0
	// large geometry (1 in 20): 4 MiB segments, entries of tens of KiB, batches whose staged
	// bytes pass 64 KiB and 1 MiB - the commit buffer is grown, and may be handled differently
	large := seed%20 == 7
	if large {
		seg = 4 << 20
		c.Count("large_geometry_workloads", 1)
	}
	// on simfs, now and then a call's first write fails (nothing reaches the file): the call
	// returns an error, is not acknowledged, and must leave no trace in the framing of later batches
	fault := &c09FailNextWrite{}
	var disk *simfs.Disk
	var dir string
	var w *wal.WAL
	var err error
	if real {
		dir, err = os.MkdirTemp("", "verif-c09-")
		if err != nil {
			return
		}
		defer os.RemoveAll(dir)
		w, err = drv.OpenDir(dir, drv.Cfg{SegSize: seg})
	} else {
		disk = simfs.New(simfs.Strict)
		disk.SetHook(fault)
		w, err = drv.OpenSim(disk, drv.Cfg{SegSize: seg})
	}
	if err != nil {
		c.Violation("C09:open", err.Error(), nil)
		return
	}
	closed := false
	defer func() {
		if !closed {
			drv.CloseWAL(w)
		}
	}()
	// attribution of acknowledged batches to segments follows the metadata of a simfs
	// twin driven in lock-step (for simfs runs the twin is the WAL itself): segment IDs
	// and base indexes are a deterministic function of the operation sequence.
	twinDisk := disk
	twin := w
	if real {
		twinDisk = simfs.New(simfs.Strict)
		twin, err = drv.OpenSim(twinDisk, drv.Cfg{SegSize: seg})
		if err != nil {
			return
		}
		defer func() {
			if twin != nil {
				drv.CloseWAL(twin)
			}
		}()
	}
	errInjected := fmt.Errorf("injected")
	apply := func(op gen.Op) error {
		if !real && rng.Intn(7) == 0 {
			fault.armed = true
			r := drv.Apply(w, op)
			fired := !fault.armed
			fault.armed = false
			if fired && r.Err != nil {
				c.Count("ops_failed_by_injected_write_error", 1)
				return errInjected
			}
			return r.Err
		}
		r := drv.Apply(w, op)
		if real {
			r2 := drv.Apply(twin, op)
			if (r.Err == nil) != (r2.Err == nil) {
				return fmt.Errorf("real and simulated runs disagree on %s: %v vs %v", op, r.Err, r2.Err)
			}
		}
		return r.Err
	}
	recs := map[uint64]*c09Seg{}
	recOf := func(si types.SegmentInfo) *c09Seg {
		r := recs[si.ID]
		if r == nil {
			r = &c09Seg{base: si.BaseIndex, id: si.ID}
			recs[si.ID] = r
		}
		return r
	}
	l := model.NewLog()
	var ops []string
	start := []uint64{1, 1, 2, 77, 1 << 33}[rng.Intn(5)]
	nops := 10 + rng.Intn(30)
	if large {
		nops = 8 + rng.Intn(8)
	}
	for i := 0; i < nops; i++ {
		x := rng.Intn(100)
		switch {
		case x < 70 || l.Empty():
			next := l.Last + 1
			if l.Empty() {
				next = start
				if len(ops) > 0 && rng.Intn(2) == 0 {
					next = start + uint64(rng.Intn(100))
				}
				start = next
			}
			k := 1 + rng.Intn(4)
			if large {
				k = []int{1, 3, 12, 30, 45}[rng.Intn(5)]
			}
			var logs []*raft.Log
			var bt fmtspec.Batch
			for j := 0; j < k; j++ {
				sz := rng.Intn(70)
				if rng.Intn(10) == 0 {
					sz = seg/2 + rng.Intn(seg)
				}
				if large {
					sz = []int{50, 9 << 10, 40 << 10, 40<<10 + 3, 70 << 10}[rng.Intn(5)] + rng.Intn(8)
					if k == 1 && rng.Intn(2) == 0 {
						sz = 1<<20 + 1<<18 + rng.Intn(64)
					}
				}
				lg := gen.Entry(rng, next+uint64(j), "f", sz)
				logs = append(logs, lg)
				bt.Entries = append(bt.Entries, encPayload(lg))
			}
			if err := apply(gen.Op{Kind: "append", Logs: logs}); err == errInjected {
				ops = append(ops, fmt.Sprintf("append %d..%d FAILED(injected write error)", logs[0].Index, logs[k-1].Index))
				continue
			} else if err != nil {
				c.Violation("C09:append-error", err.Error(), map[string]any{"seed": seed})
				return
			}
			l.Append(logs, i, true)
			// which segment took it: greatest BaseIndex <= first index of the batch
			st := twinDisk.MetaSnapshot().State
			var target *types.SegmentInfo
			for k := range st.Segments {
				if st.Segments[k].BaseIndex <= logs[0].Index {
					target = &st.Segments[k]
				}
			}
			if target == nil {
				c.Violation("C09:no-segment-for-batch", fmt.Sprintf("no segment in the metadata can hold index %d", logs[0].Index), map[string]any{"seed": seed})
				return
			}
			bt.HasIndex = !target.SealTime.IsZero() // this append sealed it
			recOf(*target).batches = append(recOf(*target).batches, bt)
			ops = append(ops, fmt.Sprintf("append %d..%d", logs[0].Index, logs[k-1].Index))
		case x < 80:
			if l.Last-l.First < 2 {
				continue
			}
			mx := l.First + uint64(rng.Intn(int(min(5, l.Last-l.First))))
			if err := apply(gen.Op{Kind: "delete", Min: l.First, Max: mx}); err == errInjected {
				ops = append(ops, "delete-head FAILED(injected)")
				continue
			} else if err != nil {
				c.Violation("C09:delete-error", err.Error(), nil)
				return
			}
			ops = append(ops, fmt.Sprintf("delete-head %d..%d", l.First, mx))
			l.DeleteRange(l.First, mx)
		case x < 90:
			if l.Last-l.First < 2 {
				continue
			}
			mn := l.Last - uint64(rng.Intn(int(min(5, l.Last-l.First))))
			before := twinDisk.MetaSnapshot().State
			if err := apply(gen.Op{Kind: "delete", Min: mn, Max: l.Last}); err == errInjected {
				ops = append(ops, fmt.Sprintf("delete-tail %d..%d FAILED(injected write error in force seal)", mn, l.Last))
				continue
			} else if err != nil {
				c.Violation("C09:delete-error", err.Error(), nil)
				return
			}
			// a truncation that ends inside the unsealed tail force-seals it: index + commit only
			if n := len(before.Segments); n > 0 {
				t := before.Segments[n-1]
				if t.SealTime.IsZero() && t.BaseIndex <= mn-1 {
					recOf(t).batches = append(recOf(t).batches, fmtspec.Batch{HasIndex: true})
					c.Count("force_seals", 1)
				}
			}
			ops = append(ops, fmt.Sprintf("delete-tail %d..%d", mn, l.Last))
			l.DeleteRange(mn, l.Last)
		case x < 94:
			if err := apply(gen.Op{Kind: "delete", Min: l.First, Max: l.Last}); err == errInjected {
				ops = append(ops, "delete-all FAILED(injected)")
				continue
			} else if err != nil {
				c.Violation("C09:delete-error", err.Error(), nil)
				return
			}
			ops = append(ops, "delete-all")
			l.DeleteRange(l.First, l.Last)
		case x >= 96 && !real && !l.Empty():
			// Close right after an append that sealed the tail, before the background rotation
			// got the lock: the next Open recovers a sealed tail and completes the rotation
			// itself, taking IndexStart from its recovery scan instead of from the writer
			gate := sched.NewRotGate(w)
			var logs []*raft.Log
			var bt fmtspec.Batch
			for j := 0; j < 2; j++ {
				lg := gen.Entry(rng, l.Last+1+uint64(j), "s", seg/2+rng.Intn(seg/2))
				logs = append(logs, lg)
				bt.Entries = append(bt.Entries, encPayload(lg))
			}
			st0 := twinDisk.MetaSnapshot().State
			trig0, _, _ := hooks.Rotations(w)
			r := drv.ApplyNoWait(w, gen.Op{Kind: "append", Logs: logs})
			if r.Err != nil {
				gate.Close()
				c.Violation("C09:append-error", r.Err.Error(), map[string]any{"seed": seed})
				return
			}
			l.Append(logs, i, true)
			var target *types.SegmentInfo
			for k := range st0.Segments {
				if st0.Segments[k].BaseIndex <= logs[0].Index {
					target = &st0.Segments[k]
				}
			}
			if target == nil {
				gate.Close()
				return
			}
			// rotate.triggered fires inside StoreLogs, so this is known when it returns
			trig1, _, _ := hooks.Rotations(w)
			pending := trig1 > trig0
			bt.HasIndex = pending
			recOf(*target).batches = append(recOf(*target).batches, bt)
			w.Close()
			gate.Close()
			hooks.Forget(w)
			w, err = drv.OpenSim(disk, drv.Cfg{SegSize: seg})
			twin = w
			if err != nil {
				c.Violation("C09:reopen", "reopen after Close with a rotation pending: "+err.Error(), nil)
				closed = true
				return
			}
			if pending {
				c.Count("closes_with_rotation_pending", 1)
				c.Distinct("batch_shapes", "sealed-tail-recovered-at-open")
			}
			ops = append(ops, fmt.Sprintf("append %d..%d + close with rotation pending=%v + reopen", logs[0].Index, logs[1].Index, pending))
		default:
			drv.CloseWAL(w)
			if real {
				w, err = drv.OpenDir(dir, drv.Cfg{SegSize: seg})
			} else {
				w, err = drv.OpenSim(disk, drv.Cfg{SegSize: seg})
				twin = w
			}
			if err != nil {
				c.Violation("C09:reopen", err.Error(), nil)
				closed = true
				return
			}
			ops = append(ops, "reopen")
		}
	}
	drv.CloseWAL(w)
	closed = true
	c.Count("workloads", 1)
	// read the directory
	files := map[string][]byte{}
	var st types.PersistentState
	if real {
		ents, _ := os.ReadDir(dir)
		for _, e := range ents {
			if strings.HasSuffix(e.Name(), ".wal") {
				b, _ := os.ReadFile(filepath.Join(dir, e.Name()))
				files[e.Name()] = b
			}
		}
		var ok bool
		if st, ok = c09ReadBolt(c, filepath.Join(dir, "wal-meta.db"), map[string]any{"seed": seed}); !ok {
			return
		}
		c.Count("real_fs_workloads", 1)
	} else {
		for _, n := range disk.List() {
			files[n] = disk.FileBytes(n)
		}
		st = disk.MetaSnapshot().State
	}
	replay := map[string]any{"seed": seed, "seg_size": seg, "real_fs": real, "ops": ops}
	c09Verify(c, files, st, recs, replay)
	if c.Get("workloads") <= 2 {
		c.Sample(map[string]any{"seed": seed, "seg_size": seg, "ops": tail(ops, 12), "files": keys(files)})
	}
}

// c09Golden opens each fixture directory written by the pinned commit.
func c09Golden(c *evid.Ctx) {
	root := filepath.Join(evid.Root, "golden")
	dirs, _ := os.ReadDir(root)
	for _, d := range dirs {
		if !d.IsDir() {
			continue
		}
		src := filepath.Join(root, d.Name())
		var ex struct {
			Name    string
			SegSize int
			First   uint64
			Last    uint64
			Entries []struct {
				Index      uint64
				Term       uint64
				Type       uint8
				Data       []byte
				Extensions []byte
				AppendedAt time.Time
			}
			Stable map[string][]byte
		}
		b, err := os.ReadFile(filepath.Join(src, "expected.json"))
		if err != nil || json.Unmarshal(b, &ex) != nil {
			c.Inconclusive("golden fixture %s has no readable expected.json", d.Name())
			continue
		}
		tmp, err := os.MkdirTemp("", "verif-golden-")
		if err != nil {
			continue
		}
		func() {
			defer os.RemoveAll(tmp)
			ents, _ := os.ReadDir(src)
			files := map[string][]byte{}
			for _, e := range ents {
				if e.Name() == "expected.json" {
					continue
				}
				fb, _ := os.ReadFile(filepath.Join(src, e.Name()))
				os.WriteFile(filepath.Join(tmp, e.Name()), fb, 0o644)
				if strings.HasSuffix(e.Name(), ".wal") {
					files[e.Name()] = fb
				}
			}
			replay := map[string]any{"golden": d.Name()}
			c.Count("golden_dirs", 1)
			c.Count("workloads", 1)
			c.Distinct("batch_shapes", "golden:"+d.Name())
			// the fixture files themselves must follow the README (independent decoder)
			if st, ok := c09ReadBolt(c, filepath.Join(tmp, "wal-meta.db"), replay); ok {
				for _, si := range st.Segments {
					fb := files[fmtspec.FileName(si.BaseIndex, si.ID)]
					if fb == nil {
						c.Violation("C09:golden-file-name", fmt.Sprintf("golden %s: metadata segment id=%d base=%d has no file under the documented name", d.Name(), si.ID, si.BaseIndex), replay)
					}
				}
			}
			w, err := drv.OpenDir(tmp, drv.Cfg{SegSize: ex.SegSize})
			if err != nil {
				c.Violation("C09:golden-open:"+d.Name(), fmt.Sprintf("golden directory %s written by the pinned version does not open: %v", d.Name(), err), replay)
				return
			}
			defer func() { drv.CloseWAL(w) }()
			m := model.NewLog()
			if len(ex.Entries) > 0 {
				var logs []*raft.Log
				for _, e := range ex.Entries {
					logs = append(logs, &raft.Log{Index: e.Index, Term: e.Term, Type: raft.LogType(e.Type), Data: e.Data, Extensions: e.Extensions, AppendedAt: e.AppendedAt})
				}
				m.Append(logs, 0, true)
			}
			obs := drv.Observe(w, model.ProbeSet(nil, m))
			if diff := m.Diff(obs); diff != "" {
				c.Violation("C09:golden-contents:"+d.Name(), fmt.Sprintf("golden directory %s opens with different contents: %s", d.Name(), diff), replay)
				return
			}
			for k, v := range ex.Stable {
				if got, err := w.Get([]byte(k)); err != nil || !bytes.Equal(got, v) {
					c.Violation("C09:golden-stable:"+d.Name(), fmt.Sprintf("golden %s: stable key %s = %x (%v), want %x", d.Name(), k, got, err, v), replay)
				}
			}
			// and stays usable: append, reopen, compare
			next := m.Last + 1
			if m.Empty() {
				next = 1
			}
			rng := rand.New(rand.NewSource(int64(len(d.Name()))))
			lg := gen.Entry(rng, next, "post", 40)
			if err := w.StoreLogs([]*raft.Log{lg}); err != nil {
				c.Violation("C09:golden-append:"+d.Name(), err.Error(), replay)
				return
			}
			m.Append([]*raft.Log{lg}, 1, true)
			drv.CloseWAL(w)
			w, err = drv.OpenDir(tmp, drv.Cfg{SegSize: ex.SegSize})
			if err != nil {
				c.Violation("C09:golden-reopen:"+d.Name(), err.Error(), replay)
				return
			}
			obs = drv.Observe(w, model.ProbeSet(nil, m))
			if diff := m.Diff(obs); diff != "" {
				c.Violation("C09:golden-contents-after-append:"+d.Name(), diff, replay)
			}
		}()
	}
}

func runC09(c *evid.Ctx) {
	c.Rule("random workloads (appends of 1-4 entries with payload sizes over all 8 padding residues and entries larger than a segment, head/tail/all truncations incl. force-seals, base-index resets, reopens, Close right after a sealing append with the rotation still queued (the next Open completes it from its recovery scan), and calls whose first file write fails with an injected error (not acknowledged; later batches must be framed as if it never happened); six segment sizes; 1 in 8 on the real filesystem with BoltDB read directly through bbolt); afterwards every segment file is decoded by an independent implementation of the README layout, its batches must equal the acknowledged batches (grouping and codec payloads), header == file name == metadata, sealed <=> index frame in the last batch, IndexStart == index payload offset, index offsets == entry frame offsets, and the independent encoder must reproduce the file byte-for-byte up to the last commit with zeros after it; plus 12 golden directories written by the pinned commit that must open with identical contents, accept an append and reopen; non-trivial = distinct (batch size, index frame, sealed) shapes and golden directories",
		"segment_files_checked", "batch_shapes")
	c.Assume("README is read as: the first commit's CRC covers the file header too (bytes written since the file was created)", "the metadata bucket is named wal-meta (as in the property's anchors), the README text says wal-state")
	n := 300
	if !quick(c) {
		n = 20000
	}
	jobs := make(chan int64, 64)
	var wg sync.WaitGroup
	for i := 0; i < runtime.NumCPU(); i++ {
		wg.Add(1)
		go func() {
			defer wg.Done()
			for s := range jobs {
				c09Workload(c, s)
			}
		}()
	}
	for i := 0; i < n; i++ {
		jobs <- c.Seed*1000003 + int64(i)
	}
	close(jobs)
	wg.Wait()
	c09Golden(c)
	if r := c.DistinctLen("padding_residues"); r < 8 {
		c.Inconclusive("only %d of the 8 padding residues were exercised", r)
	}
}

func c09ReadBolt(c *evid.Ctx, path string, replay map[string]any) (types.PersistentState, bool) {
	var st types.PersistentState
	db, err := bbolt.Open(path, 0o600, &bbolt.Options{ReadOnly: true, Timeout: 5 * time.Second})
	if err != nil {
		c.Violation("C09:bolt-open", fmt.Sprintf("wal-meta.db does not open as a BoltDB file: %v", err), replay)
		return st, false
	}
	defer db.Close()
	ok := true
	db.View(func(tx *bbolt.Tx) error {
		if tx.Bucket([]byte("stable")) == nil {
			c.Violation("C09:bolt-bucket-stable", "wal-meta.db has no 'stable' bucket", replay)
			ok = false
		}
		b := tx.Bucket([]byte("wal-meta"))
		if b == nil {
			c.Violation("C09:bolt-bucket-meta", "wal-meta.db has no 'wal-meta' bucket", replay)
			ok = false
			return nil
		}
		raw := b.Get([]byte("m"))
		if raw == nil {
			c.Violation("C09:bolt-record", "metadata record (key 'm') missing", replay)
			ok = false
			return nil
		}
		// the documented JSON object: the documented fields must be present with these names
		var generic map[string]json.RawMessage
		if err := json.Unmarshal(raw, &generic); err != nil {
			c.Violation("C09:bolt-json", fmt.Sprintf("metadata record is not a JSON object: %v", err), replay)
			ok = false
			return nil
		}
		for _, f := range []string{"NextSegmentID", "Segments"} {
			if _, has := generic[f]; !has {
				c.Violation("C09:bolt-json-field:"+f, "metadata JSON lacks documented field "+f, replay)
				ok = false
			}
		}
		var segs []map[string]json.RawMessage
		json.Unmarshal(generic["Segments"], &segs)
		for _, s := range segs {
			for _, f := range []string{"ID", "BaseIndex", "MinIndex", "MaxIndex", "Codec", "IndexStart", "CreateTime", "SealTime"} {
				if _, has := s[f]; !has {
					c.Violation("C09:bolt-json-field:"+f, "a SegmentInfo in the metadata JSON lacks documented field "+f, replay)
					ok = false
				}
			}
		}
		if err := json.Unmarshal(raw, &st); err != nil {
			ok = false
		}
		return nil
	})
	return st, ok
}

var _ = io.EOF
