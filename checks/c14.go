package checks

import (
	"errors"
	"fmt"
	"math/rand"
	"os"
	"runtime"
	"strings"
	"sync"
	"time"

	"github.com/hashicorp/raft"
	wal "github.com/hashicorp/raft-wal"

	"verif/internal/drv"
	"verif/internal/evid"
	"verif/internal/gen"
	"verif/internal/hooks"
	"verif/internal/model"
	"verif/internal/sched"
	"verif/internal/simfs"
)

func init() {
	register("C14", &Check{Level: "exploration", Race: true, Run: runC14})
}

type c14Script struct {
	Method    string `json:"method"`
	Point     string `json:"park_point"`
	Role      string `json:"park_role"`  // "op" or "*" (rotation goroutine)
	CloseMode string `json:"close_mode"` // during-park | close-parked-flagged | close-parked-locked
	Real      bool   `json:"real_fs"`
}

func (s c14Script) String() string {
	return fmt.Sprintf("%s@%s/%s", s.Method, s.Point, s.CloseMode)
}

type c14Result struct {
	val      uint64
	log      *raft.Log
	bytes    []byte
	err      error
	panicked any
	stack    string
}

// c14Env is one WAL under test.
type c14Env struct {
	disk *simfs.Disk
	dir  string
	seg  int
	w    *wal.WAL
	l    *model.Log
	rng  *rand.Rand
}

func (e *c14Env) open() error {
	var err error
	if e.disk != nil {
		e.w, err = drv.OpenSim(e.disk, drv.Cfg{SegSize: e.seg})
	} else {
		e.w, err = drv.OpenDir(e.dir, drv.Cfg{SegSize: e.seg})
	}
	return err
}

func c14Setup(real bool, empty bool, seed int64) (*c14Env, func(), error) {
	e := &c14Env{seg: 300, l: model.NewLog(), rng: rand.New(rand.NewSource(seed))}
	cleanup := func() {}
	if real {
		d, err := os.MkdirTemp("", "verif-c14-")
		if err != nil {
			return nil, nil, err
		}
		e.dir = d
		cleanup = func() { os.RemoveAll(d) }
	} else {
		e.disk = simfs.New(simfs.Strict)
	}
	if err := e.open(); err != nil {
		cleanup()
		return nil, nil, err
	}
	if !empty {
		idx := uint64(1)
		for b := 0; b < 4; b++ {
			var logs []*raft.Log
			for i := 0; i < 2; i++ {
				logs = append(logs, gen.Entry(e.rng, idx, "s", 40))
				idx++
			}
			if r := drv.Apply(e.w, gen.Op{Kind: "append", Logs: logs}); r.Err != nil {
				cleanup()
				return nil, nil, r.Err
			}
			e.l.Append(logs, b, true)
		}
		e.w.Set([]byte("k"), []byte("v0"))
	}
	return e, cleanup, nil
}

// c14Call performs the method under test and returns its classification inputs.
func c14Call(e *c14Env, method string, arg *gen.Op) (res c14Result) {
	defer func() {
		if r := recover(); r != nil {
			res.panicked = r
			buf := make([]byte, 4096)
			res.stack = string(buf[:runtime.Stack(buf, false)])
		}
	}()
	w := e.w
	switch method {
	case "FirstIndex":
		res.val, res.err = w.FirstIndex()
	case "LastIndex":
		res.val, res.err = w.LastIndex()
	case "GetLog-sealed", "GetLog-tail", "GetLog-across-rotation":
		var l raft.Log
		res.err = w.GetLog(arg.Min, &l)
		res.log = &l
	case "Get":
		res.bytes, res.err = w.Get([]byte("k"))
	case "Set":
		res.err = w.Set([]byte("k"), []byte("v1"))
	case "GetUint64":
		res.val, res.err = w.GetUint64([]byte("absent"))
	default: // StoreLogs*, DeleteRange*
		if arg.Kind == "append" {
			res.err = w.StoreLogs(arg.Logs)
		} else {
			res.err = w.DeleteRange(arg.Min, arg.Max)
		}
	}
	return res
}

func blockedInRaftWAL(stack string) bool {
	return strings.Contains(stack, "github.com/hashicorp/raft-wal.(*WAL)") || strings.Contains(stack, "github.com/hashicorp/raft-wal/segment")
}

// stackOf returns the stack of the goroutine whose dump mentions marker.
func stacksMatching(marker string) string {
	buf := make([]byte, 1<<20)
	buf = buf[:runtime.Stack(buf, true)]
	var out []string
	for _, g := range strings.Split(string(buf), "\n\n") {
		if strings.Contains(g, marker) {
			if len(g) > 1500 {
				g = g[:1500]
			}
			out = append(out, g)
		}
	}
	return strings.Join(out, "\n---\n")
}

const c14Watchdog = 40 * time.Second

// c14RunScript executes one directed script.
func c14RunScript(c *evid.Ctx, sc c14Script, seed int64) {
	empty := sc.Method == "StoreLogs-reset"
	e, cleanup, err := c14Setup(sc.Real, empty, seed)
	if err != nil {
		c.Inconclusive("setup failed for %v: %v", sc, err)
		return
	}
	defer cleanup()
	replay := map[string]any{"script": sc, "seed": seed}
	ctl := sched.New()
	remove := ctl.Install()
	defer remove()
	c.Count("scripts", 1)

	// the argument of the call under test, and the legal model outcomes
	arg := &gen.Op{}
	next := e.l.Last + 1
	switch sc.Method {
	case "GetLog-sealed", "GetLog-across-rotation":
		arg.Min = 2
	case "GetLog-tail":
		arg.Min = e.l.Last
	case "StoreLogs", "StoreLogs-waiting":
		arg = &gen.Op{Kind: "append", Logs: []*raft.Log{gen.Entry(e.rng, next, "op", 20)}}
	case "DeleteRange-waiting":
		arg = &gen.Op{Kind: "delete", Min: 1, Max: 2}
	case "StoreLogs-sealing":
		arg = &gen.Op{Kind: "append", Logs: []*raft.Log{gen.Entry(e.rng, next, "op", 280)}}
	case "StoreLogs-reset":
		arg = &gen.Op{Kind: "append", Logs: []*raft.Log{gen.Entry(e.rng, 50, "op", 20)}}
	case "DeleteRange-head":
		arg = &gen.Op{Kind: "delete", Min: 1, Max: 3}
	case "DeleteRange-tail":
		arg = &gen.Op{Kind: "delete", Min: e.l.Last - 2, Max: e.l.Last}
	}
	var preRot *sched.Parking
	if sc.Method == "StoreLogs-waiting" || sc.Method == "DeleteRange-waiting" {
		// make a rotation pending: a sealing append whose rotation goroutine is parked
		preRot = ctl.ParkAt("*", "rotate.received", 0)
		big := gen.Entry(e.rng, next, "pre", 280)
		if err := e.w.StoreLogs([]*raft.Log{big}); err != nil {
			c.Inconclusive("script %v: sealing append failed: %v", sc, err)
			return
		}
		e.l.Append([]*raft.Log{big}, 99, true)
		if !preRot.WaitReached(c14Watchdog) {
			c.Inconclusive("script %v: the rotation goroutine never reached rotate.received", sc)
			return
		}
		if arg.Kind == "append" {
			arg.Logs[0].Index = e.l.Last + 1
		}
	}
	before := e.l.Clone()

	var closeErr error
	closeDone := make(chan struct{})
	startClose := func() {
		go func() {
			ctl.Tag("close")
			closeErr = e.w.Close()
			close(closeDone)
		}()
	}
	opDone := make(chan c14Result, 1)
	startOp := func() {
		go func() {
			ctl.Tag("op")
			opDone <- c14Call(e, sc.Method, arg)
		}()
	}
	overlapped := false
	var res c14Result
	gotRes := false
	waitOp := func() bool {
		select {
		case res = <-opDone:
			gotRes = true
			return true
		case <-time.After(c14Watchdog):
			return false
		}
	}
	waitClose := func(d time.Duration) bool {
		select {
		case <-closeDone:
			return true
		case <-time.After(d):
			return false
		}
	}
	switch sc.CloseMode {
	case "during-park":
		var park *sched.Parking
		if sc.Method == "StoreLogs-waiting" || sc.Method == "DeleteRange-waiting" {
			// the op blocks by itself on the pending rotation; "parking" is the rotation goroutine
			park = preRot
			w := ctl.ParkAt("op", "awaitRotation.wait", 0) // armed before the op starts: it may get there at once
			startOp()
			if !w.WaitReached(c14Watchdog) {
				c.Inconclusive("script %v: StoreLogs never waited for the pending rotation", sc)
				w.Release()
				preRot.Release()
				return
			}
			w.Release()
		} else {
			park = ctl.ParkAt(sc.Role, sc.Point, 0)
			startOp()
			if !park.WaitReached(2 * time.Second) {
				// the call does not pass this point (e.g. no rotation for this op): not applicable
				park.Release()
				if waitOp() {
					c.Count("scripts_point_not_on_path", 1)
				}
				startClose()
				waitClose(c14Watchdog)
				return
			}
		}
		if sc.Method == "GetLog-across-rotation" {
			// the parked reader holds the state from before a rotation; Close will attach its
			// finalizer to the state after it
			big := gen.Entry(e.rng, e.l.Last+1, "rot", 280)
			if err := e.w.StoreLogs([]*raft.Log{big}); err != nil {
				c.Inconclusive("script %v: sealing append failed: %v", sc, err)
				park.Release()
				return
			}
			hooks.WaitRotation(e.w, drv.Watchdog)
			e.l.Append([]*raft.Log{big}, 98, true)
			before = e.l.Clone()
		}
		startClose()
		closedWhileParked := waitClose(150 * time.Millisecond)
		overlapped = true
		if closedWhileParked {
			c.Count("close_completed_while_op_parked", 1)
		} else {
			c.Count("close_blocked_while_op_parked", 1)
		}
		park.Release()
	case "close-flagged-rotation-exits-first":
		// a writer waits for a pending rotation; Close has set its flag but not taken the lock;
		// the rotation goroutine gets the lock first, sees the flag and exits; then Close runs
		wp := ctl.ParkAt("op", "awaitRotation.wait", 0)
		startOp()
		if !wp.WaitReached(c14Watchdog) {
			c.Inconclusive("script %v: the writer never waited for the pending rotation", sc)
			wp.Release()
			preRot.Release()
			return
		}
		wp.Release()
		cp := ctl.ParkAt("close", "Close.flagged", 0)
		startClose()
		if !cp.WaitReached(c14Watchdog) {
			c.Inconclusive("script %v: Close never reached Close.flagged", sc)
			preRot.Release()
			return
		}
		preRot.Release()
		for i := 0; i < 5000; i++ {
			if _, _, ex := hooks.Rotations(e.w); ex > 0 {
				break
			}
			time.Sleep(200 * time.Microsecond)
		}
		overlapped = true
		cp.Release()
	case "close-parked-flagged", "close-parked-locked":
		pt := "Close.flagged"
		if sc.CloseMode == "close-parked-locked" {
			pt = "Close.locked"
		}
		cp := ctl.ParkAt("close", pt, 0)
		startClose()
		if !cp.WaitReached(c14Watchdog) {
			c.Inconclusive("script %v: Close never reached %s", sc, pt)
			return
		}
		startOp()
		// the op either finishes (reads, or refused) or blocks on the lock Close holds
		select {
		case res = <-opDone:
			gotRes = true
		case <-time.After(150 * time.Millisecond):
		}
		overlapped = true
		cp.Release()
	}
	if !gotRes && !waitOp() {
		st := stacksMatching("checks.c14Call")
		if blockedInRaftWAL(st) {
			c.Violation("C14:deadlock:"+sc.Method+"@"+sc.Point, fmt.Sprintf("script %v: the call never returned after everything was released; its goroutine is blocked inside raft-wal", sc), map[string]any{"script": sc, "stack": st})
		} else {
			c.Inconclusive("script %v: the call did not return within the watchdog (not blocked in raft-wal)", sc)
		}
		return
	}
	if !waitClose(c14Watchdog) {
		st := stacksMatching("raft-wal.(*WAL).Close")
		c.Violation("C14:close-deadlock:"+sc.Method+"@"+sc.Point, fmt.Sprintf("script %v: Close never returned", sc), map[string]any{"script": sc, "stack": st})
		return
	}
	if overlapped {
		c.Distinct("overlaps", sc.String())
	}
	c.Distinct("outcomes", fmt.Sprintf("%s|%s|%s", sc.Method, sc.Point, c14Outcome(res)))
	// ---- classify the racing call ----
	if res.panicked != nil {
		c.Violation("C14:panic:"+sc.Method+"@"+sc.Point, fmt.Sprintf("script %v: the call panicked: %v", sc, res.panicked), map[string]any{"script": sc, "stack": res.stack})
		return
	}
	if closeErr != nil {
		c.Violation("C14:close-error", fmt.Sprintf("script %v: Close returned %v", sc, closeErr), replay)
	}
	applied := false
	if res.err != nil && !errors.Is(res.err, wal.ErrClosed) {
		c.Violation("C14:wrong-error:"+sc.Method+"@"+sc.Point+":"+sc.CloseMode, fmt.Sprintf("script %v: a call racing with Close returned %q, want a normal result or ErrClosed", sc, res.err), replay)
	} else if res.err == nil {
		switch sc.Method {
		case "FirstIndex":
			if res.val != before.First {
				c.Violation("C14:wrong-data:FirstIndex", fmt.Sprintf("script %v: FirstIndex=%d want %d", sc, res.val, before.First), replay)
			}
		case "LastIndex":
			if res.val != before.Last {
				c.Violation("C14:wrong-data:LastIndex", fmt.Sprintf("script %v: LastIndex=%d want %d", sc, res.val, before.Last), replay)
			}
		case "GetLog-sealed", "GetLog-tail", "GetLog-across-rotation":
			if d := model.LogDiff(res.log, before.Ents[arg.Min].Log); d != "" {
				c.Violation("C14:wrong-data:GetLog", fmt.Sprintf("script %v: GetLog(%d) differs: %s", sc, arg.Min, d), replay)
			}
		case "Get":
			if string(res.bytes) != "v0" {
				c.Violation("C14:wrong-data:Get", fmt.Sprintf("script %v: Get=%q want v0", sc, res.bytes), replay)
			}
		case "GetUint64":
			if res.val != 0 {
				c.Violation("C14:wrong-data:GetUint64", fmt.Sprintf("script %v: GetUint64(absent)=%d", sc, res.val), replay)
			}
		default:
			applied = true
		}
	}
	// ---- after Close: final, idempotent, goroutine gone, handles released ----
	w := e.w
	if err := w.Close(); err != nil {
		c.Violation("C14:second-close", fmt.Sprintf("second Close returned %v", err), replay)
	}
	var l raft.Log
	post := map[string]error{}
	_, post["FirstIndex"] = w.FirstIndex()
	_, post["LastIndex"] = w.LastIndex()
	post["GetLog"] = w.GetLog(2, &l)
	post["StoreLogs"] = w.StoreLogs([]*raft.Log{gen.Entry(e.rng, 1000, "post", 8)})
	post["DeleteRange"] = w.DeleteRange(1, 2)
	post["Set"] = w.Set([]byte("k"), []byte("post"))
	_, post["Get"] = w.Get([]byte("k"))
	_, post["GetUint64"] = w.GetUint64([]byte("k"))
	post["SetUint64"] = w.SetUint64([]byte("u"), 1)
	for m, err := range post {
		if !errors.Is(err, wal.ErrClosed) {
			c.Violation("C14:not-final:"+m, fmt.Sprintf("script %v: %s after Close returned %v, want ErrClosed", sc, m, err), replay)
		}
	}
	// the rotation goroutine must exit (allow it to be scheduled)
	exited := false
	for i := 0; i < 2000; i++ {
		if _, _, ex := hooks.Rotations(w); ex > 0 {
			exited = true
			break
		}
		time.Sleep(time.Millisecond)
	}
	if !exited {
		st := stacksMatching("raft-wal.(*WAL).runRotate")
		if st != "" {
			c.Violation("C14:rotation-goroutine-alive", fmt.Sprintf("script %v: the rotation goroutine is still alive after Close", sc), map[string]any{"script": sc, "stack": st})
		} else {
			c.Inconclusive("script %v: rotate.exit hook not seen but no runRotate goroutine found", sc)
		}
	}
	if e.disk != nil {
		if f, m := e.disk.OpenHandles(); f != 0 || m != 0 {
			c.Violation("C14:handles-leaked", fmt.Sprintf("script %v: %d file handles / %d meta stores still open after Close and after all calls returned", sc, f, m), replay)
		}
	}
	hooks.Forget(w)
	// ---- everything acknowledged before Close is there after the next Open ----
	want := before.Clone()
	if applied {
		if arg.Kind == "append" {
			want.Append(arg.Logs, 1000, true)
		} else {
			want.DeleteRange(arg.Min, arg.Max)
		}
	}
	if err := e.open(); err != nil {
		c.Violation("C14:reopen-failed", fmt.Sprintf("script %v: Open after Close failed: %v", sc, err), replay)
		return
	}
	obs := drv.Observe(e.w, model.ProbeSet([]uint64{50}, want, before))
	if d := want.Diff(obs); d != "" {
		// a call that returned ErrClosed must not have been applied; one that returned nil must be
		c.Violation("C14:state-after-reopen:"+sc.Method, fmt.Sprintf("script %v (call returned %v): after reopen %s", sc, res.err, d), replay)
	}
	if sc.Method == "Set" {
		v, _ := e.w.Get([]byte("k"))
		if res.err == nil && string(v) != "v1" {
			c.Violation("C14:set-lost", fmt.Sprintf("script %v: Set returned nil but the value after reopen is %q", sc, v), replay)
		}
	}
	drv.CloseWAL(e.w)
}

func c14Outcome(r c14Result) string {
	switch {
	case r.panicked != nil:
		return "panic"
	case r.err == nil:
		return "ok"
	case errors.Is(r.err, wal.ErrClosed):
		return "ErrClosed"
	}
	return "other-error"
}

// c14Stress runs ops from several goroutines with a randomly timed Close.
func c14Stress(c *evid.Ctx, seed int64) {
	rng := rand.New(rand.NewSource(seed))
	e, cleanup, err := c14Setup(rng.Intn(4) == 0, false, seed)
	if err != nil {
		c.Inconclusive("stress setup: %v", err)
		return
	}
	defer cleanup()
	var wg sync.WaitGroup
	var mu sync.Mutex
	bad := func(sig, desc string) {
		mu.Lock()
		c.Violation(sig, desc, map[string]any{"stress_seed": seed})
		mu.Unlock()
	}
	stop := make(chan struct{})
	before := e.l.Clone()
	var acked []*raft.Log
	truncating := seed%2 == 0
	delFirst := before.First // only the writer goroutine touches it until wg is done
	// one writer
	wg.Add(1)
	go func() {
		defer wg.Done()
		defer func() {
			if r := recover(); r != nil {
				bad("C14:panic:stress-writer", fmt.Sprintf("writer panicked racing Close: %v", r))
			}
		}()
		next := before.Last + 1
		for i := 0; ; i++ {
			if truncating && i%4 == 3 && delFirst < before.Last/2 {
				// a head truncation: states are replaced and finalizers queued while Close races
				err := e.w.DeleteRange(delFirst, delFirst)
				if err == nil {
					delFirst++
				} else if errors.Is(err, wal.ErrClosed) {
					return
				} else {
					bad("C14:wrong-error:stress-DeleteRange", fmt.Sprintf("DeleteRange racing Close returned %q", err))
					return
				}
				continue
			}
			lg := gen.Entry(rand.New(rand.NewSource(seed+int64(i))), next, "st", 30+i%60)
			err := e.w.StoreLogs([]*raft.Log{lg})
			if err == nil {
				acked = append(acked, lg)
				next++
			} else if errors.Is(err, wal.ErrClosed) {
				return
			} else {
				bad("C14:wrong-error:stress-StoreLogs", fmt.Sprintf("StoreLogs racing Close returned %q", err))
				return
			}
		}
	}()
	for r := 0; r < 3; r++ {
		wg.Add(1)
		go func(r int) {
			defer wg.Done()
			defer func() {
				if p := recover(); p != nil {
					bad("C14:panic:stress-reader", fmt.Sprintf("reader panicked racing Close: %v", p))
				}
			}()
			rr := rand.New(rand.NewSource(seed*31 + int64(r)))
			for {
				select {
				case <-stop:
					return
				default:
				}
				var err error
				switch rr.Intn(4) {
				case 0:
					_, err = e.w.FirstIndex()
				case 1:
					_, err = e.w.LastIndex()
				case 2:
					idx := uint64(1 + rr.Intn(int(before.Last)))
					if truncating {
						// stay above what the writer may truncate away
						idx = before.Last/2 + 1 + uint64(rr.Intn(int(before.Last-before.Last/2)))
					}
					var l raft.Log
					err = e.w.GetLog(idx, &l)
					if err == nil {
						if d := model.LogDiff(&l, before.Ents[idx].Log); d != "" {
							bad("C14:wrong-data:stress-GetLog", d)
						}
					}
				default:
					_, err = e.w.Get([]byte("k"))
				}
				if err != nil && !errors.Is(err, wal.ErrClosed) {
					bad("C14:wrong-error:stress-read", fmt.Sprintf("a read racing Close returned %q", err))
					return
				}
				if err != nil {
					return
				}
			}
		}(r)
	}
	time.Sleep(time.Duration(rng.Intn(3000)) * time.Microsecond)
	if err := e.w.Close(); err != nil {
		bad("C14:close-error", err.Error())
	}
	close(stop)
	done := make(chan struct{})
	go func() { wg.Wait(); close(done) }()
	select {
	case <-done:
	case <-time.After(c14Watchdog):
		st := stacksMatching("checks.c14Stress")
		if blockedInRaftWAL(st) {
			bad("C14:deadlock:stress", "goroutines racing Close never returned; blocked inside raft-wal")
		} else {
			c.Inconclusive("stress run %d did not finish within the watchdog", seed)
		}
		return
	}
	hooks.Forget(e.w)
	c.Count("stress_runs", 1)
	c.Count("stress_acked_appends", int64(len(acked)))
	if e.disk != nil {
		if f, m := e.disk.OpenHandles(); f != 0 || m != 0 {
			bad("C14:handles-leaked", fmt.Sprintf("stress: %d file handles / %d meta stores still open after Close returned and every racing call finished", f, m))
		}
	}
	want := before.Clone()
	if delFirst > before.First {
		want.DeleteRange(before.First, delFirst-1)
		c.Count("stress_acked_truncations", int64(delFirst-before.First))
	}
	if len(acked) > 0 {
		want.Append(acked, 1, true)
	}
	if err := e.open(); err != nil {
		bad("C14:reopen-failed", err.Error())
		return
	}
	obs := drv.Observe(e.w, model.ProbeSet(nil, want))
	// the last StoreLogs may have been applied although it returned ErrClosed? no: it is refused before any effect
	if d := want.Diff(obs); d != "" {
		bad("C14:state-after-reopen:stress", d)
	}
	drv.CloseWAL(e.w)
}

func runC14(c *evid.Ctx) {
	c.Rule("directed scripts: every method (FirstIndex, LastIndex, GetLog on a sealed segment and on the tail, StoreLogs plain / sealing / base-index reset / waiting for a pending rotation, DeleteRange head and tail, Set, Get, GetUint64) parked at every hook point on its path while Close runs (to completion, or blocked on the write lock), and Close itself parked after setting its flag / after taking the lock while the method runs; then the result is classified (normal and correct, or ErrClosed; never panic, other error, deadlock), the post-Close battery (every method ErrClosed, second Close nil, rotation goroutine exited, no open handles) and a reopen comparison are applied; plus stress runs with random Close timing under hook perturbation and the race detector; non-trivial = distinct scripts in which the call really overlapped Close",
		"scripts", "overlaps")
	c.Assume("a call that has not returned 15s after every parked goroutine was released, with its goroutine blocked inside raft-wal, is a deadlock; otherwise a watchdog expiry is inconclusive")
	readPts := []string{"checked", "acquireState.loaded"}
	type mp struct {
		m   string
		pts []string
	}
	methods := []mp{
		{"FirstIndex", []string{"FirstIndex.checked", "acquireState.loaded"}},
		{"LastIndex", []string{"LastIndex.checked", "acquireState.loaded"}},
		{"GetLog-sealed", []string{"GetLog.checked", "acquireState.loaded", "GetLog.acquired", "readFrame.beforeRead"}},
		{"GetLog-tail", []string{"GetLog.checked", "acquireState.loaded", "GetLog.acquired", "offsetForFrame.checked", "readFrame.beforeRead"}},
		{"GetLog-across-rotation", []string{"GetLog.acquired", "readFrame.beforeRead"}},
		{"StoreLogs", []string{"StoreLogs.checked", "StoreLogs.locked", "acquireState.loaded", "append.buffered", "append.synced"}},
		{"StoreLogs-sealing", []string{"StoreLogs.checked", "StoreLogs.locked", "append.synced", "rotate.triggered", "rotate.received"}},
		{"StoreLogs-reset", []string{"StoreLogs.locked", "mutate.beforeCommit", "mutate.afterCommit", "mutate.beforeStore", "mutate.afterStore", "state.finalizer.begin"}},
		{"StoreLogs-waiting", []string{"awaitRotation.wait"}},
		{"DeleteRange-waiting", []string{"awaitRotation.wait"}},
		{"DeleteRange-head", []string{"DeleteRange.checked", "DeleteRange.locked", "mutate.beforeCommit", "mutate.afterCommit", "mutate.afterStore", "state.finalizer.begin"}},
		{"DeleteRange-tail", []string{"DeleteRange.checked", "DeleteRange.locked", "append.synced", "mutate.beforeCommit", "mutate.afterCommit", "mutate.afterStore"}},
		{"Set", []string{"Set.checked"}},
		{"Get", []string{"Get.checked"}},
		{"GetUint64", []string{"Get.checked"}},
	}
	_ = readPts
	var scripts []c14Script
	for _, real := range []bool{false, true} {
		for _, m := range methods {
			for _, p := range m.pts {
				role := "op"
				if p == "rotate.received" {
					role = "*"
				}
				scripts = append(scripts, c14Script{Method: m.m, Point: p, Role: role, CloseMode: "during-park", Real: real})
			}
			if m.m == "StoreLogs-waiting" || m.m == "DeleteRange-waiting" {
				scripts = append(scripts, c14Script{Method: m.m, Point: "awaitRotation.wait", Role: "op", CloseMode: "close-flagged-rotation-exits-first", Real: real})
			}
			if m.m != "StoreLogs-waiting" && m.m != "DeleteRange-waiting" && m.m != "GetLog-across-rotation" {
				scripts = append(scripts, c14Script{Method: m.m, Point: "-", CloseMode: "close-parked-flagged", Real: real},
					c14Script{Method: m.m, Point: "-", CloseMode: "close-parked-locked", Real: real})
			}
		}
	}
	c.Sample(scripts[0])
	c.Sample(scripts[len(scripts)/3])
	reps := 1
	if !quick(c) {
		reps = 6
	}
	for r := 0; r < reps; r++ {
		for i, sc := range scripts {
			c14RunScript(c, sc, c.Seed*1009+int64(i)+int64(r)*100000)
		}
	}
	c14LateClose(c)
	c14AfterFaults(c)
	// stress under perturbation
	ctl := sched.New()
	ctl.Perturb(c.Seed, 0.3)
	remove := ctl.Install()
	n := 150
	if !quick(c) {
		n = 4000
	}
	jobs := make(chan int64, 16)
	var wg sync.WaitGroup
	for i := 0; i < 8; i++ {
		wg.Add(1)
		go func() {
			defer wg.Done()
			for s := range jobs {
				c14Stress(c, s)
			}
		}()
	}
	for i := 0; i < n; i++ {
		jobs <- c.Seed*7919 + int64(i)
	}
	close(jobs)
	wg.Wait()
	remove()
	c.Extra("hook_hits_stress", ctl.Hits())
	// the same at full speed, no perturbation: windows that have no hook point are only
	// reachable when nothing slows the racing goroutines down
	jobs2 := make(chan int64, 16)
	for i := 0; i < 8; i++ {
		wg.Add(1)
		go func() {
			defer wg.Done()
			for s := range jobs2 {
				c14Stress(c, s)
			}
		}()
	}
	for i := 0; i < n; i++ {
		jobs2 <- c.Seed*104729 + int64(i)
	}
	close(jobs2)
	wg.Wait()
}
