// Package checks holds one entry point per property.
package checks

import "verif/internal/evid"

// Check runs one property check and records into c.
type Check struct {
	Level string
	Race  bool // must run in the -race binary
	Run   func(c *evid.Ctx)
}

var Registry = map[string]*Check{}

func register(id string, ck *Check) { Registry[id] = ck }

func quick(c *evid.Ctx) bool { return c.Tier != "thorough" }
