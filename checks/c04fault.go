package checks

import (
	"fmt"
	"math/rand"

	"github.com/hashicorp/raft"

	"verif/internal/drv"
	"verif/internal/evid"
	"verif/internal/gen"
	"verif/internal/hooks"
	"verif/internal/model"
	"verif/internal/simfs"
)

// c04Fault fails the next call of one kind, before or after its effect.
type c04Fault struct {
	kind  simfs.Kind
	after bool
	armed bool
	fired int
}

func (h *c04Fault) Pre(d *simfs.Disk, cl simfs.Call) error {
	if h.armed && !h.after && cl.Kind == h.kind {
		h.armed = false
		h.fired++
		return simfs.ErrInjected
	}
	return nil
}
func (h *c04Fault) Mid(d *simfs.Disk, cl simfs.Call) {}
func (h *c04Fault) Post(d *simfs.Disk, cl simfs.Call) error {
	if h.armed && h.after && cl.Kind == h.kind {
		h.armed = false
		h.fired++
		return simfs.ErrInjected
	}
	return nil
}

// c04FailedTruncations: a truncation interrupted not by a crash but by a failing metadata
// commit / file creation / unlink, possibly followed by a crash: in the running process,
// after a kill-restart and after a clean reopen the log must be the old or the new one in
// full - FirstIndex, LastIndex and every entry - never a partly removed range.
func c04FailedTruncations(c *evid.Ctx) {
	type fk struct {
		kind  simfs.Kind
		after bool
		name  string
	}
	faults := []fk{{simfs.KMetaCommit, false, "commit-before"}, {simfs.KMetaCommit, true, "commit-after"}, {simfs.KCreate, false, "create-before"}, {simfs.KCreate, true, "create-after"}, {simfs.KDelete, false, "unlink-before"}, {simfs.KDelete, true, "unlink-after"}}
	for _, trunc := range []string{"head", "head-boundary", "tail", "tail-into-sealed", "all"} {
		for _, f := range faults {
			rng := rand.New(rand.NewSource(c.Seed*977 + int64(len(trunc)*7+len(f.name))))
			disk := simfs.New(simfs.Strict)
			h := &c04Fault{kind: f.kind, after: f.after}
			disk.SetHook(h)
			w, err := drv.OpenSim(disk, drv.Cfg{SegSize: 300})
			if err != nil {
				c.Violation("C04:open", err.Error(), nil)
				return
			}
			l := model.NewLog()
			idx := uint64(1)
			for b := 0; b < 6; b++ {
				var logs []*raft.Log
				for i := 0; i < 2; i++ {
					logs = append(logs, gen.Entry(rng, idx, "t", 60))
					idx++
				}
				if rr := drv.Apply(w, gen.Op{Kind: "append", Logs: logs}); rr.Err != nil {
					c.Violation("C04:append", rr.Err.Error(), nil)
				}
				l.Append(logs, b, true)
			}
			var min, max uint64
			switch trunc {
			case "head":
				min, max = 1, 5
			case "head-boundary":
				min, max = 1, 4
			case "tail":
				min, max = l.Last, l.Last
			case "tail-into-sealed":
				min, max = 4, l.Last
			default:
				min, max = 1, l.Last
			}
			newL := l.Clone()
			newL.DeleteRange(min, max)
			replay := map[string]any{"truncation": trunc, "range": []uint64{min, max}, "fault": f.name}
			h.armed = true
			derr := w.DeleteRange(min, max)
			hooks.WaitRotation(w, drv.Watchdog)
			h.armed = false
			c.Count("failed_truncation_scripts", 1)
			c.Count("images", 1)
			c.Distinct("trunc_images", fmt.Sprintf("failed-trunc|%s|%s|fired=%d|err=%v", trunc, f.name, h.fired, derr != nil))
			judge := func(st drv.Store, when string) bool {
				probes := model.ProbeSet(nil, l, newL)
				obs := drv.Observe(st, probes)
				dOld, dNew := l.Diff(obs), newL.Diff(obs)
				if derr == nil && h.fired == 0 {
					dOld = "n/a (the call was not disturbed)"
				}
				if dOld != "" && dNew != "" {
					c.Violation("C04:failed-truncation-partly-applied:"+when, fmt.Sprintf("DeleteRange(%d,%d) (%s) hit an injected %s failure (returned %v); %s the log is neither the old one (%s) nor the new one (%s)", min, max, trunc, f.name, derr, when, dOld, dNew), replay)
					return false
				}
				return true
			}
			if !judge(w, "in the running process") {
				drv.CloseWAL(w)
				continue
			}
			// kill-restart on a copy, then a clean reopen of the original
			img := disk.Snapshot().Image(simfs.Variant{Kill: true})
			if w2, err := drv.OpenSim(img, drv.Cfg{SegSize: 300}); err != nil {
				c.Violation("C04:failed-truncation-open-after-kill", fmt.Sprintf("after DeleteRange(%d,%d) hit an injected %s failure and the process was killed, Open fails: %v", min, max, f.name, err), replay)
			} else {
				judge(w2, "after a kill and restart")
				drv.CloseWAL(w2)
			}
			drv.CloseWAL(w)
			disk.SetHook(nil)
			if w3, err := drv.OpenSim(disk, drv.Cfg{SegSize: 300}); err != nil {
				c.Violation("C04:failed-truncation-reopen", fmt.Sprintf("after DeleteRange(%d,%d) hit an injected %s failure, a clean reopen fails: %v", min, max, f.name, err), replay)
			} else {
				judge(w3, "after a clean reopen")
				drv.CloseWAL(w3)
			}
		}
	}
}
