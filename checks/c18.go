package checks

import (
	"errors"
	"fmt"
	"math/rand"
	"runtime"
	"strings"
	"sync"
	"time"

	"github.com/hashicorp/raft"
	"github.com/hashicorp/raft-wal/verifier"

	"verif/internal/drv"
	"verif/internal/evid"
	"verif/internal/model"
	"verif/internal/simfs"
	"verif/internal/vsim"
)

func init() {
	register("C18", &Check{Level: "exploration", Race: true, Run: runC18})
}

type c18Twin struct {
	a, b   raft.LogStore // a is behind the middleware, b is driven directly
	fa, fb *vsim.FaultStore
	v      *verifier.LogStore
	col    *vsim.Collector
	closeF func()
}

func c18NewTwin(kind string, seg int) (*c18Twin, error) {
	t := &c18Twin{col: vsim.NewCollector()}
	switch kind {
	case "wal":
		da, db := simfs.New(simfs.Strict), simfs.New(simfs.Strict)
		wa, err := drv.OpenSim(da, drv.Cfg{SegSize: seg})
		if err != nil {
			return nil, err
		}
		wb, err := drv.OpenSim(db, drv.Cfg{SegSize: seg})
		if err != nil {
			return nil, err
		}
		t.a, t.b = wa, wb
		t.closeF = func() { drv.CloseWAL(wa); drv.CloseWAL(wb) }
	default:
		t.a, t.b = raft.NewInmemStore(), raft.NewInmemStore()
		t.closeF = func() {}
	}
	t.fa = &vsim.FaultStore{LogStore: t.a}
	t.fb = &vsim.FaultStore{LogStore: t.b}
	t.v = verifier.NewLogStore(t.fa, vsim.IsCheckpoint, func(verifier.VerificationReport) {}, t.col)
	return t, nil
}

func errStr(e error) string {
	if e == nil {
		return "<nil>"
	}
	return e.Error()
}

func validMeta(ext []byte) bool {
	if len(ext) != 24 {
		return false
	}
	var v uint64
	for i := 0; i < 8; i++ {
		v |= uint64(ext[i]) << (8 * i)
	}
	return v == verifier.ExtensionMagicPrefix
}

// c18Diff runs one differential sequence.
func c18Diff(c *evid.Ctx, seed int64) {
	rng := rand.New(rand.NewSource(seed))
	kind := "inmem"
	if rng.Intn(4) == 0 {
		kind = "wal"
	}
	t, err := c18NewTwin(kind, 300)
	if err != nil {
		c.Violation("C18:open", err.Error(), nil)
		return
	}
	defer func() { t.v.Close(); t.closeF() }()
	m := model.NewLog() // what the twin b holds
	cpSubmittedEmpty := map[uint64]bool{}
	var calls []string
	replay := func() map[string]any { return map[string]any{"seed": seed, "store": kind, "calls": tail(calls, 40)} }
	steps := 30 + rng.Intn(60)
	seq := 0
	for s := 0; s < steps; s++ {
		x := rng.Intn(100)
		switch {
		case x < 45: // StoreLogs
			n := 1 + rng.Intn(4)
			next := m.Last + 1
			if m.Empty() {
				next = 1 + uint64(rng.Intn(3))
			}
			if rng.Intn(12) == 0 {
				next += 2 // gap: a monotonic store refuses, InmemStore accepts
			}
			var la, lb []*raft.Log
			foreign := false
			for i := 0; i < n; i++ {
				seq++
				l := &raft.Log{Index: next + uint64(i), Term: 1 + uint64(s/10), Type: raft.LogType(rng.Intn(3)), Data: []byte(fmt.Sprintf("v%d", seq))}
				switch rng.Intn(10) {
				case 0:
					l.Extensions = []byte("app-ext")
				case 1, 2: // leader checkpoint (Extensions nil, or empty but not nil: both are "empty")
					l.Data = []byte(fmt.Sprintf("C%d", seq))
					l.Type = raft.LogCommand
					if rng.Intn(2) == 0 {
						l.Extensions = []byte{}
					}
				case 3: // follower-style checkpoint with valid metadata
					l.Data = []byte(fmt.Sprintf("C%d", seq))
					ext := make([]byte, 24)
					for k := 0; k < 8; k++ {
						ext[k] = byte(verifier.ExtensionMagicPrefix >> (8 * k))
					}
					ext[8] = byte(rng.Intn(200))
					ext[16] = byte(rng.Intn(200))
					l.Extensions = ext
				case 4: // checkpoint with foreign extensions: must be refused
					if rng.Intn(3) == 0 {
						l.Data = []byte(fmt.Sprintf("C%d", seq))
						l.Extensions = []byte("foreign-data-not-ours")
						foreign = true
					}
				}
				la = append(la, l)
				lb = append(lb, model.CopyLog(l))
			}
			// identical injected failure on both sides now and then
			if rng.Intn(15) == 0 {
				t.fa.FailStore = errors.New("injected store failure")
				t.fb.FailStore = errors.New("injected store failure")
			}
			calls = append(calls, fmt.Sprintf("StoreLogs[%d..%d foreign=%v]", la[0].Index, la[n-1].Index, foreign))
			ea := t.v.StoreLogs(la)
			if foreign {
				c.Distinct("call_classes", "store-foreign-checkpoint")
				t.fb.FailStore = nil
				if ea == nil {
					c.Violation("C18:foreign-extensions-accepted", "a checkpoint whose Extensions hold foreign data was accepted", replay())
					return
				}
				// nothing of the refused call may be stored
				t.fa.FailStore = nil
			} else {
				eb := t.fb.StoreLogs(lb)
				c.Distinct("call_classes", fmt.Sprintf("store|err=%v", eb != nil))
				if (ea == nil) != (eb == nil) || (ea != nil && !strings.Contains(ea.Error(), eb.Error())) {
					c.Violation("C18:storelogs-result-differs", fmt.Sprintf("StoreLogs through the middleware returned %q, directly %q", errStr(ea), errStr(eb)), replay())
					return
				}
				if eb == nil {
					for _, l := range lb {
						if ok, _ := vsim.IsCheckpoint(l); ok && len(l.Extensions) == 0 {
							cpSubmittedEmpty[l.Index] = true
						} else {
							delete(cpSubmittedEmpty, l.Index)
						}
					}
					m.Append(lb, s, true)
					if m.First == 0 || m.First > lb[0].Index {
						m.First = lb[0].Index
					}
				}
			}
		case x < 60: // DeleteRange
			var mn, mx uint64
			if m.Empty() {
				mn, mx = uint64(2+rng.Intn(3)), 1 // inverted range: a no-op everywhere (InmemStore corrupts its bounds on other ranges when empty)
			} else {
				switch rng.Intn(5) {
				case 0:
					mn, mx = m.First, m.First+uint64(rng.Intn(3))
				case 1:
					mn, mx = m.Last-uint64(rng.Intn(int(min(3, m.Last-m.First+1)))), m.Last
				case 2:
					mn, mx = m.First+1, m.Last-1
				case 3:
					mn, mx = 1, m.Last+3 // (raft.InmemStore mishandles min=0: its high index wraps around)
				default:
					mn, mx = m.Last+1, m.Last+4
				}
			}
			if mn == 0 {
				mn = 1
			}
			calls = append(calls, fmt.Sprintf("DeleteRange(%d,%d)", mn, mx))
			ea := t.v.DeleteRange(mn, mx)
			eb := t.fb.DeleteRange(mn, mx)
			c.Distinct("call_classes", fmt.Sprintf("delete|err=%v", eb != nil))
			if (ea == nil) != (eb == nil) {
				c.Violation("C18:deleterange-result-differs", fmt.Sprintf("DeleteRange(%d,%d) through the middleware returned %q, directly %q", mn, mx, errStr(ea), errStr(eb)), replay())
				return
			}
		default: // reads
			idx := uint64(rng.Intn(int(m.Last + 3)))
			calls = append(calls, fmt.Sprintf("GetLog(%d)", idx))
			var oa, ob raft.Log
			ea := t.v.GetLog(idx, &oa)
			eb := t.fb.GetLog(idx, &ob)
			c.Distinct("call_classes", fmt.Sprintf("getlog|found=%v", eb == nil))
			if errStr(ea) != errStr(eb) {
				c.Violation("C18:getlog-result-differs", fmt.Sprintf("GetLog(%d) through the middleware returned %q, directly %q", idx, errStr(ea), errStr(eb)), replay())
				return
			}
		}
		c.Count("calls", 1)
		// compare the whole contents
		fa, e1 := t.v.FirstIndex()
		fb, e2 := t.fb.FirstIndex()
		la, e3 := t.v.LastIndex()
		lb, e4 := t.fb.LastIndex()
		if fa != fb || la != lb || e1 != nil || e2 != nil || e3 != nil || e4 != nil {
			c.Violation("C18:bounds-differ", fmt.Sprintf("First/Last through the middleware %d/%d, directly %d/%d", fa, la, fb, lb), replay())
			return
		}
		if lb > 0 && lb-fb > 1000000 {
			c.Inconclusive("twin stores report an absurd index range [%d,%d] after %v", fb, lb, tail(calls, 6))
			return
		}
		if lb > 0 {
			for i := fb; i <= lb; i++ {
				var oa, ob raft.Log
				ea := t.a.GetLog(i, &oa)
				eb := t.b.GetLog(i, &ob)
				if (ea == nil) != (eb == nil) {
					c.Violation("C18:stored-entries-differ", fmt.Sprintf("index %d present on one side only (%v / %v)", i, ea, eb), replay())
					return
				}
				if ea != nil {
					continue
				}
				if cpSubmittedEmpty[i] {
					if !validMeta(oa.Extensions) {
						c.Violation("C18:checkpoint-metadata-missing", fmt.Sprintf("leader checkpoint %d stored with Extensions %q, want the 24-byte verification metadata", i, oa.Extensions), replay())
						return
					}
					oa.Extensions = nil
					ob.Extensions = nil
				}
				if d := model.LogDiff(&oa, &ob); d != "" {
					c.Violation("C18:stored-entries-differ", fmt.Sprintf("entry %d stored through the middleware differs from the submitted one: %s", i, d), replay())
					return
				}
			}
		}
		// keep the model's bounds in step with b (InmemStore semantics differ from the WAL's)
		m.First, m.Last = fb, lb
	}
	c.Count("sequences", 1)
	if c.Get("sequences") <= 2 {
		c.Sample(map[string]any{"kind": "differential", "seed": seed, "store": kind, "calls": tail(calls, 12)})
	}
}

// c18Block parks ReportFn and drives checkpoint arrivals.
func c18Block(c *evid.Ctx, seed int64) {
	rng := rand.New(rand.NewSource(seed))
	n := vsim.NewNode("solo", raft.NewInmemStore())
	defer n.V.Close()
	next := uint64(1)
	type cpr struct{ start, end uint64 }
	var stored []cpr
	lastCP := uint64(0)
	storeBatch := func(withCP bool) bool {
		k := 1 + rng.Intn(3)
		// sometimes several checkpoints arrive in one batch (a follower catching up)
		ncp := 0
		if withCP {
			ncp = 1
			if rng.Intn(3) == 0 {
				ncp = 2 + rng.Intn(2)
				k = ncp + rng.Intn(3)
			}
		}
		var logs []*raft.Log
		var cpIdx []uint64
		for i := 0; i < k; i++ {
			l := &raft.Log{Index: next, Term: 1, Type: raft.LogCommand, Data: []byte(fmt.Sprintf("d%d", next))}
			if i >= k-ncp {
				l.Data = []byte("C")
				cpIdx = append(cpIdx, next)
			}
			logs = append(logs, l)
			next++
		}
		// now and then the underlying store refuses the batch once (nothing is stored, no
		// report may result from it); the same entries are then sent again
		if rng.Intn(5) == 0 {
			var cp []*raft.Log
			for _, l := range logs {
				cp = append(cp, model.CopyLog(l))
			}
			n.Faulty.FailNextStore(vsim.ErrInjected)
			if err := n.Store(cp); err == nil {
				c.Violation("C18:store-error-swallowed", "the underlying store refused a batch but the middleware's StoreLogs returned nil", map[string]any{"seed": seed})
				return false
			}
			for _, l := range cp {
				delete(n.Written, l.Index)
			}
			c.Count("refused_batches", 1)
			if ncp > 0 {
				c.Distinct("call_classes", "block|refused-checkpoint-batch")
			}
		}
		done := make(chan error, 1)
		go func() { done <- n.Store(logs) }()
		select {
		case err := <-done:
			if err != nil {
				c.Violation("C18:store-error", err.Error(), map[string]any{"seed": seed})
				return false
			}
		case <-time.After(20 * time.Second):
			buf := make([]byte, 1<<16)
			buf = buf[:runtime.Stack(buf, true)]
			st := string(buf)
			if strings.Contains(st, "verifier.(*LogStore).triggerVerify") || strings.Contains(st, "verifier.(*LogStore).StoreLogs") {
				c.Violation("C18:storelogs-blocked-by-reportfn", "StoreLogs did not return while ReportFn is parked; its goroutine is blocked inside the verifier", map[string]any{"seed": seed, "stack": st[:min(len(st), 3000)]})
			} else {
				c.Inconclusive("StoreLogs did not return within the watchdog but is not blocked in the verifier")
			}
			return false
		}
		for _, ci := range cpIdx {
			start := lastCP
			if start == 0 {
				start = 1
			}
			stored = append(stored, cpr{start, ci})
			lastCP = ci
		}
		if len(cpIdx) > 1 {
			c.Distinct("call_classes", fmt.Sprintf("block|checkpoints-in-batch=%d", len(cpIdx)))
		}
		return true
	}
	// a few delivered checkpoints first
	for i := 0; i < rng.Intn(3); i++ {
		if !storeBatch(true) {
			return
		}
		n.Quiesce()
	}
	// a quarter of the histories: while ReportFn is parked and reports are queued, the head of
	// the log is compacted away up to (not including) the latest checkpoint entry. That does
	// not touch the entries being summed, but the queued reports are then delivered with
	// ErrRangeMismatch; the reports after them must still name exactly the dropped ranges
	compacted := false
	compact := rng.Intn(4) == 0
	rounds := 1 + rng.Intn(3)
	for r := 0; r < rounds; r++ {
		release := n.Park()
		arrivals := rng.Intn(7)
		c.Distinct("blocking_schedules", fmt.Sprintf("arrivals=%d", arrivals))
		c.Distinct("call_classes", fmt.Sprintf("block|arrivals=%d", arrivals))
		for i := 0; i < arrivals; i++ {
			if rng.Intn(3) == 0 {
				if !storeBatch(false) {
					release()
					return
				}
			}
			if !storeBatch(true) {
				release()
				return
			}
			c.Count("stores_while_reportfn_parked", 1)
			if compact && !compacted && lastCP > 2 && rng.Intn(2) == 0 {
				if first, err := n.Under.FirstIndex(); err == nil && first > 0 && first < lastCP-1 {
					if err := n.V.DeleteRange(first, lastCP-1); err == nil {
						compacted = true
						c.Count("compactions_under_queued_reports", 1)
						c.Distinct("call_classes", "block|queued-report-gets-range-mismatch")
					}
				}
			}
		}
		release()
		if !n.Quiesce() {
			c.Inconclusive("verifier did not quiesce after releasing ReportFn")
			return
		}
		// one more delivered checkpoint so that a report follows the drops
		if !storeBatch(true) {
			return
		}
		if !n.Quiesce() {
			c.Inconclusive("verifier did not quiesce")
			return
		}
	}
	c.Count("blocking_histories", 1)
	c.Count("calls", int64(len(stored)))
	reports := n.TakeReports()
	cw, dr := n.Col.Get("checkpoints_written"), n.Col.Get("dropped_reports")
	replay := map[string]any{"seed": seed, "checkpoints": len(stored), "delivered": len(reports), "dropped_metric": dr}
	if cw != uint64(len(stored)) {
		c.Violation("C18:checkpoints_written-wrong", fmt.Sprintf("checkpoints_written=%d, %d checkpoints were stored", cw, len(stored)), replay)
	}
	if uint64(len(reports))+dr != cw {
		c.Violation("C18:accounting", fmt.Sprintf("delivered reports (%d) + dropped_reports (%d) != checkpoints_written (%d) at quiescence", len(reports), dr, cw), replay)
	}
	// each report belongs to exactly one stored checkpoint, in order, no duplicates
	delivered := map[uint64]bool{}
	prevEnd := uint64(0)
	for _, r := range reports {
		if delivered[r.Range.End] {
			c.Violation("C18:duplicate-report", fmt.Sprintf("two reports for the checkpoint at %d", r.Range.End), replay)
		}
		delivered[r.Range.End] = true
		// after a compaction a queued report may come back with ErrRangeMismatch, or - when the
		// compaction lands while its range is being read - with a read error; never with a
		// checksum mismatch
		var ecm verifier.ErrChecksumMismatch
		if r.Err != nil && !(compacted && !errors.As(r.Err, &ecm)) {
			c.Violation("C18:unexpected-report-error", fmt.Sprintf("report %s carries %v in a corruption-free single-node history", r.Range, r.Err), replay)
		}
		// dropped checkpoints between the previous delivered report and this one
		var dropLo, dropHi uint64
		for _, s := range stored {
			if s.end > prevEnd && s.end < r.Range.End && prevEnd != 0 {
				if dropLo == 0 || s.start < dropLo {
					dropLo = s.start
				}
				if s.end > dropHi {
					dropHi = s.end
				}
			}
		}
		if dropHi != 0 {
			c.Count("reports_following_a_drop", 1)
			if r.SkippedRange == nil {
				c.Violation("C18:skipped-range-missing", fmt.Sprintf("checkpoints covering [%d,%d) were dropped but the next delivered report %s has no SkippedRange", dropLo, dropHi, r.Range), replay)
			} else if r.SkippedRange.Start > dropLo || r.SkippedRange.End < dropHi {
				c.Violation("C18:skipped-range-wrong", fmt.Sprintf("dropped ranges span [%d,%d) but SkippedRange is %s", dropLo, dropHi, r.SkippedRange), replay)
			}
		} else if r.SkippedRange != nil && prevEnd != 0 {
			c.Violation("C18:skipped-range-spurious", fmt.Sprintf("no checkpoint was dropped before %s but SkippedRange is %s", r.Range, r.SkippedRange), replay)
		}
		prevEnd = r.Range.End
	}
	if c.Get("blocking_histories") <= 2 {
		c.Sample(map[string]any{"kind": "blocking", "seed": seed, "checkpoints_stored": len(stored), "delivered": len(reports), "dropped": dr})
	}
}

func runC18(c *evid.Ctx) {
	c.Rule("(a) differential sequences: every call goes through verifier.LogStore over store A and directly to an identical store B (InmemStore twins, WAL twins for a quarter): StoreLogs (plain, leader checkpoints, follower checkpoints with valid metadata, checkpoints with foreign Extensions, gaps, injected store failures), DeleteRange (prefix/suffix/middle/all/none), GetLog; results and, after every call, the full stored contents are compared (only a leader checkpoint's empty Extensions may differ, and must be the 24-byte metadata); (b) blocking schedules: ReportFn parked by the harness for 0-6 checkpoint arrivals, StoreLogs must return, then accounting checkpoints_written == delivered + dropped_reports at quiescence and SkippedRange of the report following a drop; non-trivial = distinct call classes and blocking schedules",
		"calls", "call_classes")
	nd, nb := 3000, 800
	if !quick(c) {
		nd, nb = 60000, 15000
	}
	jobs := make(chan func(), 64)
	var wg sync.WaitGroup
	for i := 0; i < runtime.NumCPU(); i++ {
		wg.Add(1)
		go func() {
			defer wg.Done()
			for f := range jobs {
				f()
			}
		}()
	}
	for i := 0; i < nd; i++ {
		s := c.Seed*1000003 + int64(i)
		jobs <- func() { c18Diff(c, s) }
	}
	for i := 0; i < nb; i++ {
		s := c.Seed*7777777 + int64(i)
		jobs <- func() { c18Block(c, s) }
	}
	close(jobs)
	wg.Wait()
	for _, k := range []string{"arrivals=0", "arrivals=6"} {
		_ = k
	}
	c.Extra("blocking_schedules_seen", c.DistinctLen("blocking_schedules"))
}
