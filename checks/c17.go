package checks

import (
	"fmt"
	"math/rand"
	"runtime"
	"strings"
	"sync"
	"sync/atomic"

	"github.com/hashicorp/raft"

	"verif/internal/evid"
	"verif/internal/model"
	"verif/internal/vsim"
)

func init() {
	register("C17", &Check{Level: "exploration", Run: runC17})
}

var c17Fields = []string{"term", "type", "data-flip", "data-trunc", "data-extend", "data-empty", "ext-add", "ext-change", "index", "swap", "swap-whole"}

// c17Mutate applies the named single-field mutation. It reports false when the
// mutation does not apply to this entry (caller picks another).
func c17Mutate(field string, l *raft.Log, isCP bool, v int64) bool {
	// v (the case number) selects WHICH bit / byte is altered, so that over the case list
	// every bit position of the integer fields and positions all over Data / Extensions
	// are hit: a checksum that drops or folds some bits has a blind spot only there.
	if v < 0 {
		v = -v
	}
	switch field {
	case "term":
		if v%5 == 0 {
			l.Term += 3
		} else {
			l.Term ^= 1 << uint(v%64)
		}
	case "type":
		l.Type ^= 1 << uint(v%8)
	case "data-flip":
		if len(l.Data) < 2 {
			return false
		}
		d := append([]byte{}, l.Data...)
		d[int(v/8)%len(d)] ^= 1 << uint(v%8)
		l.Data = d
	case "data-trunc":
		if len(l.Data) < 2 {
			return false
		}
		l.Data = append([]byte{}, l.Data[:len(l.Data)-1]...)
	case "data-extend":
		l.Data = append(append([]byte{}, l.Data...), []byte{'x', 0}[v%2])
	case "data-empty":
		if isCP || len(l.Data) == 0 {
			return false
		}
		l.Data = nil
	case "ext-add":
		l.Extensions = append(append([]byte{}, l.Extensions...), []byte{0x7f, 0}[v%2])
	case "ext-change":
		if len(l.Extensions) == 0 {
			return false
		}
		e := append([]byte{}, l.Extensions...)
		e[int(v/8)%len(e)] ^= 1 << uint(v%8)
		l.Extensions = e
	case "index":
		if v%5 == 0 {
			l.Index += 1000
		} else {
			l.Index ^= 1 << uint(v%64)
		}
	default:
		return false
	}
	return true
}

func isSwap(f string) bool { return f == "swap" || f == "swap-whole" }

type c17Case struct {
	Seed  int64
	Site  string // inflight | rest-follower | rest-leader
	Field string
	Pos   string // first | last | prev-checkpoint | middle
	// Align: whether the follower's running sum starts where the leader's does
	// (false: follower middleware restarted inside the range)
	RestartInRange bool
	// CompactDuring: while the victim's verifier reads the target range, a head truncation
	// (snapshot compaction) removes the oldest entry of its log, far below the range
	CompactDuring bool
}

func c17Run(c *evid.Ctx, cs c17Case) {
	rng := rand.New(rand.NewSource(cs.Seed))
	cl := vsim.NewCluster(rng, 3)
	defer cl.Close()
	refusable := false // set once an in-flight mutation of a checkpoint's Extensions is armed
	fail := func(err error) {
		if refusable && strings.Contains(err.Error(), "invalid extension data") {
			// the follower's middleware refused to store a checkpoint whose verification metadata no
			// longer parses: the node does not hold the range, so the property's premise is not met
			// (refusing foreign Extensions on a checkpoint is C18's statement)
			c.Count("inflight_checkpoint_mutation_refused_by_store", 1)
			return
		}
		c.Violation("C17:store-error", err.Error(), map[string]any{"case": cs, "events": tail(cl.Events, 30)})
	}
	// warm-up: a few appends with checkpoints, fully replicated
	for i := 0; i < 1+rng.Intn(3); i++ {
		k := 2 + rng.Intn(4)
		if err := cl.LeaderAppend(k, map[int]bool{k - 1: rng.Intn(2) == 0}); err != nil {
			fail(err)
			return
		}
	}
	if rng.Intn(3) == 0 {
		cl.ChangeLeader(1)
		cl.Leader = 1
	}
	for fi := range cl.Nodes {
		if err := cl.Replicate(fi, ^uint64(0), nil); err != nil {
			fail(err)
			return
		}
	}
	cl.QuiesceAll()
	for _, n := range cl.Nodes {
		n.TakeReports()
	}
	ld := cl.Nodes[cl.Leader]
	fi := (cl.Leader + 1) % len(cl.Nodes)
	f := cl.Nodes[fi]
	// target batch: k1 entries, cp1, k2 entries, cp2
	k1, k2 := rng.Intn(5), 1+rng.Intn(5)
	a := ld.Truth.Last + 1
	cp1 := a + uint64(k1)
	cp2 := cp1 + 1 + uint64(k2)
	// choose the position inside range2 = [cp1, cp2)
	var p uint64
	switch cs.Pos {
	case "first", "prev-checkpoint":
		p = cp1
	case "last":
		p = cp2 - 1
	default:
		p = cp1 + uint64(rng.Intn(int(cp2-cp1)))
	}
	if isSwap(cs.Field) && p+1 >= cp2 {
		p = cp2 - 2
		if p <= cp1 { // need two adjacent non-checkpoint entries
			c.Count("skipped_not_applicable", 1)
			return
		}
	}
	if isSwap(cs.Field) && p == cp1 {
		p++
		if p+1 >= cp2 {
			c.Count("skipped_not_applicable", 1)
			return
		}
	}
	isCP := p == cp1
	if (cs.Field == "index" || cs.Field == "swap-whole") && cs.Site == "inflight" {
		c.Count("skipped_not_applicable", 1)
		return
	}
	applied := false
	refusable = cs.Site == "inflight" && isCP && (cs.Field == "ext-add" || cs.Field == "ext-change")
	var swapData []byte
	mut := func(l *raft.Log) {
		if l.Index == p || (isSwap(cs.Field) && l.Index == p+1) {
			if isSwap(cs.Field) {
				// exchange the Data of entries p and p+1 (read the partner from the leader's
				// underlying store, which is complete before any verification starts)
				oi := p + 1
				if l.Index == p+1 {
					oi = p
				}
				var other raft.Log
				if err := ld.Under.GetLog(oi, &other); err != nil {
					return
				}
				if cs.Field == "swap-whole" {
					// the store hands back the complete neighbouring entry (its Index too): both
					// entries are intact, only their positions are exchanged
					*l = *model.CopyLog(&other)
					applied = true
				} else if string(other.Data) != string(l.Data) {
					l.Data = append([]byte{}, other.Data...)
					applied = true
				}
				_ = swapData
				return
			}
			if c17Mutate(cs.Field, l, isCP, cs.Seed) {
				applied = true
			}
		}
	}
	victim := f
	switch cs.Site {
	case "rest-leader":
		victim = ld
		ld.Faulty.SetCorrupt(p, mut)
		if isSwap(cs.Field) {
			ld.Faulty.SetCorrupt(p+1, mut)
		}
	case "rest-follower":
		f.Faulty.SetCorrupt(p, mut)
		if isSwap(cs.Field) {
			f.Faulty.SetCorrupt(p+1, mut)
		}
	}
	var m0 func(*raft.Log)
	if cs.Site == "inflight" {
		m0 = mut
	}
	var compacted atomic.Uint64
	if cs.CompactDuring {
		var fired atomic.Bool
		cb := func(i uint64) {
			if i >= cp1 && i < cp2 && fired.CompareAndSwap(false, true) {
				if first, err := victim.Faulty.LogStore.FirstIndex(); err == nil && first > 0 && first+1 < a {
					if victim.V.DeleteRange(first, first) == nil {
						compacted.Store(first)
					}
				}
			}
		}
		victim.Faulty.OnGet.Store(&cb)
	}
	// two StoreLogs calls on the leader and a pause after the first checkpoint on the
	// follower: the verifier queues at most one report, a third arriving while one
	// runs would be (legitimately) dropped and leave nothing to judge
	if err := cl.LeaderAppend(k1+1, map[int]bool{k1: true}); err != nil {
		fail(err)
		return
	}
	ld.Quiesce()
	if err := cl.LeaderAppend(k2+1, map[int]bool{k2: true}); err != nil {
		fail(err)
		return
	}
	ld.Quiesce()
	if err := cl.Replicate(fi, cp1, m0); err != nil {
		fail(err)
		return
	}
	f.Quiesce()
	if cs.RestartInRange && cs.Site != "rest-leader" {
		// replicate up to somewhere inside range2, restart the follower's middleware, then the rest
		mid := cp1 + uint64(rng.Intn(int(cp2-cp1)))
		var m func(*raft.Log)
		if cs.Site == "inflight" {
			m = mut
		}
		if err := cl.Replicate(fi, mid, m); err != nil {
			fail(err)
			return
		}
		f.Quiesce()
		f.Restart()
	}
	var m func(*raft.Log)
	if cs.Site == "inflight" {
		m = mut
	}
	if err := cl.Replicate(fi, ^uint64(0), m); err != nil {
		fail(err)
		return
	}
	if !cl.QuiesceAll() {
		c.Inconclusive("case %v: verifier did not quiesce within the watchdog", cs)
		return
	}
	if ci := compacted.Load(); ci > 0 {
		victim.Faulty.OnGet.Store(nil)
		victim.Truth.DeleteRange(ci, ci)
		c.Count("compactions_during_verification", 1)
	}
	c.Count("mutations_injected", 1)
	replay := map[string]any{"case": cs, "p": p, "range2": fmt.Sprintf("[%d,%d)", cp1, cp2), "events": tail(cl.Events, 30)}
	// blame rule on every report of every node
	var target *vsim.Judgement
	for _, n := range cl.Nodes {
		for _, r := range n.TakeReports() {
			j := cl.Judge(n, r)
			c.Count("reports_judged", 1)
			if j.InFlight && j.Known && j.WroteSame {
				// the checkpoint entry at End is part of what the node wrote too
				w := n.Written[r.Range.End]
				le := ld.Truth.Ents[r.Range.End]
				if w != nil && le != nil && model.LogDiff(w, le.Log) == "" {
					c.Violation("C17:in-flight-blamed-wrongly:"+cs.Site, fmt.Sprintf("node %s report for %s blames in-flight corruption although it wrote exactly the leader's entries: %v", n.Name, r.Range, r.Err), replay)
				}
			}
			if n == victim && r.Range.Start <= p && p < r.Range.End {
				jj := j
				target = &jj
			}
		}
	}
	if !applied && cs.Site != "inflight" {
		// at-rest mutators run inside GetLog; if the verifier never read p the report cannot know
		if target == nil {
			c.Count("no_report_for_target_range", 1)
			return
		}
	}
	if !applied {
		c.Count("skipped_not_applicable", 1)
		return
	}
	if target == nil {
		c.Count("no_report_for_target_range", 1)
		return
	}
	c.Count("target_reports", 1)
	c.Distinct("mutation_classes", fmt.Sprintf("%s|%s|%s|restart=%v|compacted-during=%v", cs.Site, cs.Field, cs.Pos, cs.RestartInRange, compacted.Load() > 0))
	if target.RangeErr {
		if target.Known && target.Holds {
			c.Violation("C17:undetected:range-mismatch-for-held-range:"+cs.Site, fmt.Sprintf("entry %d (%s) mutated %s (%s) inside range %s which %s holds completely, but the report says ErrRangeMismatch instead of verifying it (follower restarted in range: %v)", p, cs.Pos, cs.Field, cs.Site, target.Report.Range, victim.Name, cs.RestartInRange), replay)
			return
		}
		c.Count("target_range_not_held", 1)
		return
	}
	if !target.Mismatch {
		c.Violation("C17:undetected:"+cs.Site+":"+cs.Field, fmt.Sprintf("entry %d (%s) mutated %s (%s) inside verified range %s on %s, but the delivered report carries no ErrChecksumMismatch (err=%v)", p, cs.Pos, cs.Field, cs.Site, target.Report.Range, victim.Name, target.Report.Err), replay)
		return
	}
	if cs.Site != "inflight" && target.InFlight {
		c.Violation("C17:in-flight-blamed-wrongly:"+cs.Site, fmt.Sprintf("at-rest mutation on %s was reported as in-flight corruption: %v", victim.Name, target.Report.Err), replay)
	}
	c.Count("detected", 1)
	if cs.Field == "term" || cs.Field == "index" || cs.Field == "type" {
		v := cs.Seed
		if v < 0 {
			v = -v
		}
		w := int64(64)
		if cs.Field == "type" {
			w = 8
		}
		c.Distinct("integer_field_bits_detected", fmt.Sprintf("%s:bit%d", cs.Field, v%w))
	}
}

func runC17(c *evid.Ctx) {
	c.Rule("linear cluster histories with exactly one injected mutation inside a verified checkpoint range: position in {first = the previous checkpoint entry, last, middle}, field in {term, type, data flip/truncate/extend/empty, extensions add/change, index (at rest), the Data of two entries swapped, two whole entries swapped at rest}, site in {in flight to a follower, at rest on the follower, at rest on the leader}, with and without a follower middleware restart inside the range (which decides whether the written sum is compared), and in a third of the cases with a head truncation far below the range landing while the victim's verifier reads the range; the delivered report for that range must carry ErrChecksumMismatch, and no report may blame in-flight corruption when the node wrote exactly the leader's entries (also checked on mutation-free random cluster histories with leader restarts, leadership changes, truncations and refused appends); non-trivial = distinct (site, field, position, restart) whose report was delivered",
		"mutations_injected", "mutation_classes")
	c.Assume("FNV-1a collisions are not searched for", "the index-1 configuration entry special case is excluded")
	reps := 40
	if !quick(c) {
		reps = 400
	}
	var cases []c17Case
	i := int64(0)
	for r := 0; r < reps; r++ {
		for _, site := range []string{"inflight", "rest-follower", "rest-leader"} {
			for _, field := range c17Fields {
				for _, pos := range []string{"first", "last", "middle"} {
					for _, rs := range []bool{false, true} {
						i++
						cases = append(cases, c17Case{Seed: c.Seed*1000003 + i, Site: site, Field: field, Pos: pos, RestartInRange: rs, CompactDuring: (r+int(i))%3 == 0})
					}
				}
			}
		}
	}
	c.Sample(cases[0])
	c.Sample(cases[len(cases)/2])
	jobs := make(chan c17Case, 64)
	var wg sync.WaitGroup
	for w := 0; w < runtime.NumCPU(); w++ {
		wg.Add(1)
		go func() {
			defer wg.Done()
			for cs := range jobs {
				c17Run(c, cs)
			}
		}()
	}
	for _, cs := range cases {
		jobs <- cs
	}
	close(jobs)
	wg.Wait()
	// second sentence of the property on histories without any mutation: leadership changes,
	// restarts (of leaders too), truncations, refused appends - nobody may be blamed for
	// in-flight corruption
	nClean := 400
	if !quick(c) {
		nClean = 40000
	}
	for i := 0; i < nClean; i++ {
		c16HistoryMode(c, c.Seed*1000033+int64(i), true)
	}
}
