package checks

import (
	"bytes"
	"fmt"
	"io"
	"math/rand"
	"sync"
	"time"

	"github.com/hashicorp/raft"
	wal "github.com/hashicorp/raft-wal"

	"verif/internal/drv"
	"verif/internal/evid"
	"verif/internal/model"
	"verif/internal/simfs"
)

func init() {
	register("C12", &Check{Level: "exploration", Race: true, Run: runC12})
}

// xorCodec is a custom codec: BinaryCodec output XORed with a key byte.
type xorCodec struct {
	id  uint64
	key byte
}

func (c *xorCodec) ID() uint64 { return c.id }
func (c *xorCodec) Encode(l *raft.Log, w io.Writer) error {
	var b bytes.Buffer
	if err := (&wal.BinaryCodec{}).Encode(l, &b); err != nil {
		return err
	}
	bs := b.Bytes()
	for i := range bs {
		bs[i] ^= c.key
	}
	_, err := w.Write(bs)
	return err
}
func (c *xorCodec) Decode(bs []byte, l *raft.Log) error {
	cp := make([]byte, len(bs))
	for i := range bs {
		cp[i] = bs[i] ^ c.key
	}
	return (&wal.BinaryCodec{}).Decode(cp, l)
}

var varintEdges = func() []uint64 {
	v := []uint64{0, 1, 2, 3}
	for k := 1; k <= 9; k++ {
		x := uint64(1) << (7 * k)
		v = append(v, x-1, x, x+1)
	}
	v = append(v, 1<<32-1, 1<<32, 1<<63-1, 1<<63, ^uint64(0)-1, ^uint64(0))
	return v
}()

func c12Bytes(rng *rand.Rand, class int) ([]byte, string) {
	switch class {
	case 0:
		return nil, "nil"
	case 1:
		return []byte{}, "empty"
	case 2:
		return []byte{byte(rng.Intn(256))}, "1B"
	case 3:
		n := 64*1024 - 64 + rng.Intn(128)
		b := make([]byte, n)
		rng.Read(b)
		return b, "64KiB+-"
	case 4:
		n := 100000 + rng.Intn(250000)
		b := make([]byte, n)
		rng.Read(b[:64])
		return b, "big"
	default:
		n := rng.Intn(300)
		b := make([]byte, n)
		rng.Read(b)
		return b, "small"
	}
}

func c12Time(rng *rand.Rand, class int) (time.Time, string) {
	switch class {
	case 0:
		return time.Time{}, "zero"
	case 1:
		return time.Unix(rng.Int63n(4e9), rng.Int63n(1e9)).UTC(), "utc-subsec"
	case 2:
		off := (rng.Intn(29) - 14) * 3600
		return time.Unix(rng.Int63n(4e9), 0).In(time.FixedZone("z", off)), "zone-hours"
	case 3:
		return time.Now(), "monotonic"
	case 4:
		return time.Unix(-rng.Int63n(4e9), rng.Int63n(1e9)).UTC(), "pre1970"
	case 5:
		return time.Date(9999, 12, 31, 23, 59, 59, 999999999, time.UTC), "year9999"
	case 6:
		return time.Unix(rng.Int63n(4e9), 0).In(time.FixedZone("odd", 3600*5+1800+rng.Intn(60))), "zone-seconds"
	default:
		return time.Unix(rng.Int63n(2e9), rng.Int63n(1e9)).In(time.Local), "local"
	}
}

func c12Log(rng *rand.Rand, big bool) (*raft.Log, string) {
	l := &raft.Log{}
	ic, tc := rng.Intn(len(varintEdges)), rng.Intn(len(varintEdges))
	l.Index = varintEdges[ic]
	l.Term = varintEdges[tc]
	l.Type = raft.LogType(rng.Intn(256))
	dcl, ecl, tcl := rng.Intn(7), rng.Intn(7), rng.Intn(8)
	if !big {
		if dcl == 3 || dcl == 4 {
			dcl = 5
		}
		if ecl == 3 || ecl == 4 {
			ecl = 6
		}
	}
	var ds, es, ts string
	l.Data, ds = c12Bytes(rng, dcl)
	l.Extensions, es = c12Bytes(rng, ecl)
	l.AppendedAt, ts = c12Time(rng, tcl)
	return l, fmt.Sprintf("data=%s ext=%s time=%s", ds, es, ts)
}

func runC12(c *evid.Ctx) {
	c.Rule("codec round-trips of generated raft.Log values (varint boundaries 2^7k-1/2^7k/2^7k+1, MaxUint64; nil/empty/1B/64KiB+-64/large Data and Extensions; 8 time classes), StoreLogs->GetLog round-trips through a WAL, aliasing re-checks of returned logs after further concurrent reads (race detector on), and the custom-codec reopen matrix; non-trivial = distinct (data class, extensions class, time class) combinations round-tripped",
		"roundtrips", "field_classes")
	nCodec, nWal, nAlias := 20000, 70, 14
	if !quick(c) {
		nCodec, nWal, nAlias = 1000000, 5000, 600
	}
	rng := rand.New(rand.NewSource(c.Seed))
	codec := &wal.BinaryCodec{}
	// 1. codec round trip (into a fresh destination, and into one that is re-used from
	// call to call the way raft and the verifier re-use theirs)
	var reused raft.Log
	for i := 0; i < nCodec; i++ {
		l, cls := c12Log(rng, i%50 == 0)
		var buf bytes.Buffer
		if err := codec.Encode(l, &buf); err != nil {
			c.Violation("C12:encode-error", fmt.Sprintf("Encode failed for %s: %v", cls, err), map[string]any{"log": model.Brief(l), "class": cls})
			continue
		}
		enc := append([]byte{}, buf.Bytes()...)
		var out raft.Log
		if err := codec.Decode(enc, &out); err != nil {
			c.Violation("C12:decode-error", fmt.Sprintf("Decode(Encode(l)) failed for %s: %v", cls, err), map[string]any{"log": model.Brief(l), "class": cls})
			continue
		}
		if d := model.LogDiff(&out, l); d != "" {
			c.Violation("C12:roundtrip-diff:"+cls, fmt.Sprintf("Decode(Encode(l)) != l for %s: %s", cls, d), map[string]any{"log": model.Brief(l), "class": cls})
		}
		prevCls := fmt.Sprintf("data=%d ext=%d", len(reused.Data), len(reused.Extensions))
		// what a caller keeps when it copies the struct before re-using it for the next read
		// (out = append(out, l)): that value must stay what it was
		kept, keptDeep := reused, model.CopyLog(&reused)
		if err := codec.Decode(enc, &reused); err != nil {
			c.Violation("C12:decode-error", fmt.Sprintf("Decode(Encode(l)) into a re-used destination failed for %s: %v", cls, err), map[string]any{"log": model.Brief(l), "class": cls})
		} else if d := model.LogDiff(&reused, l); d != "" {
			c.Violation("C12:roundtrip-diff-reused-destination", fmt.Sprintf("Decode(Encode(l)) into a destination that held a previous log (%s) != l for %s: %s", prevCls, cls, d), map[string]any{"log": model.Brief(l), "class": cls, "previous": prevCls})
		}
		if i > 0 {
			if d := model.LogDiff(&kept, keptDeep); d != "" {
				c.Violation("C12:earlier-result-changed", fmt.Sprintf("a log decoded earlier (%s) and copied by value changed when the same destination struct was decoded into again: %s", prevCls, d), map[string]any{"class": cls, "previous": prevCls})
			}
		}
		c.Count("roundtrips_into_reused_destination", 1)
		// the decoded log must not reference the input buffer
		for j := range enc {
			enc[j] = 0xEE
		}
		if d := model.LogDiff(&out, l); d != "" {
			c.Violation("C12:decode-aliases-input", fmt.Sprintf("decoded log changed when the input buffer was overwritten (%s): %s", cls, d), map[string]any{"class": cls})
		}
		c.Count("roundtrips", 1)
		c.Distinct("field_classes", cls)
		if i < 2 {
			c.Sample(map[string]any{"kind": "codec", "log": model.Brief(l), "class": cls, "encoded_len": len(enc)})
		}
	}
	// 2. WAL round trips, including reads after reopen
	for i := 0; i < nWal; i++ {
		disk := simfs.New(simfs.Strict)
		seg := []int{512, 64 * 1024, 1 << 20}[rng.Intn(3)]
		w, err := drv.OpenSim(disk, drv.Cfg{SegSize: seg})
		if err != nil {
			c.Violation("C12:open", err.Error(), nil)
			continue
		}
		start := varintEdges[rng.Intn(len(varintEdges)-2)]
		if start == 0 {
			start = 1
		}
		var logs []*raft.Log
		n := 1 + rng.Intn(6)
		for k := 0; k < n; k++ {
			l, cls := c12Log(rng, rng.Intn(4) == 0)
			l.Index = start + uint64(k)
			logs = append(logs, l)
			c.Distinct("field_classes", cls)
		}
		if err := w.StoreLogs(logs); err != nil {
			c.Violation("C12:store-error", fmt.Sprintf("StoreLogs failed: %v", err), map[string]any{"start": start})
			drv.CloseWAL(w)
			continue
		}
		var reusedOut raft.Log
		check := func(when string) {
			for _, l := range logs {
				keptW, keptWDeep := reusedOut, model.CopyLog(&reusedOut)
				if err := w.GetLog(l.Index, &reusedOut); err != nil {
					c.Violation("C12:getlog-error:"+when, fmt.Sprintf("GetLog(%d) %s: %v", l.Index, when, err), map[string]any{"log": model.Brief(l)})
				} else if d := model.LogDiff(&reusedOut, l); d != "" {
					c.Violation("C12:wal-roundtrip-diff-reused-destination:"+when, fmt.Sprintf("GetLog(%d) %s into a destination that held the previous result differs: %s", l.Index, when, d), map[string]any{"log": model.Brief(l)})
				}
				if keptWDeep.Index != 0 {
					if d := model.LogDiff(&keptW, keptWDeep); d != "" {
						c.Violation("C12:earlier-result-changed:"+when, fmt.Sprintf("the log returned by GetLog(%d) and copied by value changed when the same destination struct was passed to GetLog(%d): %s", keptWDeep.Index, l.Index, d), map[string]any{"log": model.Brief(l)})
					}
				}
				var out raft.Log
				if err := w.GetLog(l.Index, &out); err != nil {
					c.Violation("C12:getlog-error:"+when, fmt.Sprintf("GetLog(%d) %s: %v", l.Index, when, err), map[string]any{"log": model.Brief(l)})
					continue
				}
				if d := model.LogDiff(&out, l); d != "" {
					c.Violation("C12:wal-roundtrip-diff:"+when, fmt.Sprintf("GetLog(%d) %s differs: %s", l.Index, when, d), map[string]any{"log": model.Brief(l)})
				}
				c.Count("roundtrips", 1)
				c.Count("wal_roundtrips", 1)
			}
		}
		check("in-process")
		drv.CloseWAL(w)
		w, err = drv.OpenSim(disk, drv.Cfg{SegSize: seg})
		if err != nil {
			c.Violation("C12:reopen", err.Error(), nil)
			continue
		}
		check("after-reopen")
		drv.CloseWAL(w)
	}
	// 3. aliasing of pooled buffers
	for i := 0; i < nAlias; i++ {
		c12Alias(c, rand.New(rand.NewSource(c.Seed*31+int64(i))))
	}
	// 4. custom codec matrix
	c12CodecMatrix(c, rng)
}

func c12Alias(c *evid.Ctx, rng *rand.Rand) {
	disk := simfs.New(simfs.Strict)
	w, err := drv.OpenSim(disk, drv.Cfg{SegSize: 256 * 1024})
	if err != nil {
		c.Violation("C12:open", err.Error(), nil)
		return
	}
	defer drv.CloseWAL(w)
	var logs []*raft.Log
	n := 20 + rng.Intn(30)
	for k := 0; k < n; k++ {
		l, _ := c12Log(rng, false)
		l.Index = uint64(k + 1)
		sz := []int{10, 100, 1000, 30000, 64*1024 - 40, 64*1024 - 20, 64 * 1024, 70000}[rng.Intn(8)]
		l.Data = make([]byte, sz)
		for j := range l.Data {
			l.Data[j] = byte(k + j)
		}
		logs = append(logs, l)
	}
	for i := 0; i < len(logs); i += 5 {
		end := i + 5
		if end > len(logs) {
			end = len(logs)
		}
		if err := w.StoreLogs(logs[i:end]); err != nil {
			c.Violation("C12:store-error", err.Error(), nil)
			return
		}
	}
	// take some logs, remember deep copies, then hammer GetLog from several goroutines
	type held struct {
		got  *raft.Log
		copy *raft.Log
	}
	var hs []held
	for k := 0; k < 8; k++ {
		var out raft.Log
		idx := uint64(1 + rng.Intn(n))
		if err := w.GetLog(idx, &out); err != nil {
			c.Violation("C12:getlog-error:alias", err.Error(), nil)
			return
		}
		hs = append(hs, held{&out, model.CopyLog(&out)})
	}
	var wg sync.WaitGroup
	for g := 0; g < 4; g++ {
		wg.Add(1)
		seed := rng.Int63()
		go func() {
			defer wg.Done()
			r := rand.New(rand.NewSource(seed))
			for k := 0; k < 50; k++ {
				var out raft.Log
				w.GetLog(uint64(1+r.Intn(n)), &out)
			}
		}()
	}
	wg.Wait()
	for _, h := range hs {
		if d := model.LogDiff(h.got, h.copy); d != "" {
			c.Violation("C12:returned-log-changed", fmt.Sprintf("a log returned by GetLog changed after later reads: %s", d), map[string]any{"index": h.copy.Index})
		}
		if d := model.LogDiff(h.got, logs[h.copy.Index-1]); d != "" {
			c.Violation("C12:wal-roundtrip-diff:alias", d, nil)
		}
		c.Count("aliasing_rechecks", 1)
		c.Count("roundtrips", 1)
	}
}

func c12CodecMatrix(c *evid.Ctx, rng *rand.Rand) {
	ids := []uint64{0, 1, 65535, 65536, 65537, 1 << 40, 1 << 63, ^uint64(0)}
	mkLogs := func() []*raft.Log {
		var ls []*raft.Log
		for k := 0; k < 4; k++ {
			l, _ := c12Log(rng, false)
			l.Index = uint64(10 + k)
			ls = append(ls, l)
		}
		return ls
	}
	for _, id := range ids {
		disk := simfs.New(simfs.Strict)
		cd := &xorCodec{id: id, key: 0x5a}
		w, err := drv.OpenSim(disk, drv.Cfg{SegSize: 300, Codec: cd})
		reserved := id < wal.FirstExternalCodecID
		c.Count("codec_matrix_cases", 1)
		c.Distinct("codec_ids", fmt.Sprint(id))
		if reserved {
			if err == nil {
				c.Violation("C12:reserved-codec-id-accepted", fmt.Sprintf("Open accepted a custom codec with reserved ID %d", id), map[string]any{"id": id})
				drv.CloseWAL(w)
			}
			continue
		}
		if err != nil {
			c.Violation("C12:custom-codec-open", fmt.Sprintf("Open with custom codec ID %d failed: %v", id, err), map[string]any{"id": id})
			continue
		}
		logs := mkLogs()
		// several appends so that sealed segments and a tail both exist
		for k := range logs {
			if err := w.StoreLogs(logs[k : k+1]); err != nil {
				c.Violation("C12:custom-codec-store", err.Error(), map[string]any{"id": id})
			}
		}
		drv.CloseWAL(w)
		// same codec: must reopen and read back
		w, err = drv.OpenSim(disk, drv.Cfg{SegSize: 300, Codec: cd})
		if err != nil {
			c.Violation("C12:custom-codec-reopen", fmt.Sprintf("a WAL created with custom codec ID %d does not reopen with it: %v", id, err), map[string]any{"id": id})
		} else {
			for _, l := range logs {
				var out raft.Log
				if err := w.GetLog(l.Index, &out); err != nil || model.LogDiff(&out, l) != "" {
					c.Violation("C12:custom-codec-readback", fmt.Sprintf("GetLog(%d) after reopen with custom codec: err=%v", l.Index, err), map[string]any{"id": id})
				}
				c.Count("roundtrips", 1)
			}
			drv.CloseWAL(w)
		}
		// different codec IDs must be refused
		for _, other := range []wal.Codec{nil, &xorCodec{id: id ^ 1<<20, key: 0x5a}} {
			w, err = drv.OpenSim(disk, drv.Cfg{SegSize: 300, Codec: other})
			c.Count("codec_matrix_cases", 1)
			if err == nil {
				c.Violation("C12:foreign-codec-accepted", fmt.Sprintf("directory written with codec ID %d was opened with a different codec", id), map[string]any{"id": id})
				drv.CloseWAL(w)
			}
		}
	}
	// default-codec directory opened with a custom codec
	disk := simfs.New(simfs.Strict)
	w, err := drv.OpenSim(disk, drv.Cfg{SegSize: 300})
	if err == nil {
		w.StoreLogs(mkLogs())
		drv.CloseWAL(w)
		w, err = drv.OpenSim(disk, drv.Cfg{SegSize: 300, Codec: &xorCodec{id: 1 << 20, key: 1}})
		c.Count("codec_matrix_cases", 1)
		if err == nil {
			c.Violation("C12:foreign-codec-accepted", "directory written with the built-in codec was opened with a custom codec", nil)
			drv.CloseWAL(w)
		}
	}
}
