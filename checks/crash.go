package checks

import (
	"encoding/json"
	"fmt"
	"os"
	"runtime"
	"sync"

	"verif/internal/crashsim"
	"verif/internal/evid"
)

type crashCfg struct {
	profile    string
	quickWl    int
	thoroughWl int
	rule       string
	distinct   string
}

func init() {
	cfgs := map[string]crashCfg{
		"C01": {"mixed", 24, 110, "crash images (snapshot at an I/O boundary x which pending 8-byte pieces / directory operations / lengths reached disk, nested to depth 2) recovered and compared with the legal model states; non-trivial = distinct image content hash with a pending piece, pending directory operation, in-flight call or taken inside recovery", "nontrivial_images"},
		"C02": {"chains", 30, 140, "crash images of chains crash->recover->append->crash; recovered state must equal one legal state exactly; non-trivial = distinct image whose tail file, before recovery, holds non-zero bytes beyond the point where a plain frame scan stops, or a torn (partial) subset of the in-flight batch; plus directed two-crash chains (batch T0 torn with every subset of its sectors on disk, recovery, a shorter batch T1 for the same indexes torn with every combination of which pending write - recovery's zeroing, T1 - reached which sector)", "c02_nontrivial"},
		"C03": {"seal", 22, 110, "crash images recovered, then a fixed continuation (appends forcing rotation, truncations, stable set/get, clean reopen, append) must succeed and match; non-trivial = distinct image taken in rotation, inside Open, during a truncation, or with the tail file missing", "c03_nontrivial"},
		"C04": {"trunc", 24, 110, "crash images of workloads rich in truncations; non-trivial = distinct image with a truncation in flight or acknowledged earlier; plus scripts in which the truncation is interrupted by a failing metadata commit / Create / unlink (before or after its effect) instead of a crash: in the running process, after a kill-restart and after a clean reopen the log is the old or the new one in full", "trunc_images"},
		"C13": {"mixed", 18, 90, "directory listing compared with committed metadata after every acknowledged call of the golden run and after Open on every crash image, plus online segment-ID rules at every CommitState/Create; non-trivial = distinct image holding a file not in (or lacking a file of) the committed metadata before Open, plus reader-pinning scripts (a reader parked holding the old state while a head / tail / all truncation drops its segment: the files must be gone once DeleteRange returned and the reader finished) and failed-Create scripts (the Create of a delete-all / tail truncation / base-index reset / rotation fails with or without leaving the file behind, the operation is retried in the same process: no file name may be passed to Create twice, the identity rules hold, the retry does not collide, the reopened directory equals the metadata)", "c13_nontrivial"},
	}
	for id, cfg := range cfgs {
		id, cfg := id, cfg
		register(id, &Check{Level: "fault_enumeration", Run: func(c *evid.Ctx) { runCrash(c, id, cfg) }})
	}
}

func runCrash(c *evid.Ctx, id string, cfg crashCfg) {
	c.Rule(cfg.rule, "images", cfg.distinct)
	c.Assume("simmeta: CommitState/SetStable are atomic and durable when they return (bbolt itself is exercised by C07/C08 in child processes)",
		"power loss keeps any subset of un-fsynced 8-byte pieces and pending directory operations; fsynced bytes are never damaged",
		"directory-sync behaviour of simfs is calibrated from the production fs package's hook events at start of run")
	p := crashsim.Params{Prop: id, MaxDepth: 2, VariantBudget: 10, NestedBudget: 3, NestedPoints: 3, ExhaustiveMax: 4, PointStride: 3, Workers: runtime.NumCPU()}
	n := cfg.quickWl
	if !quick(c) {
		n = cfg.thoroughWl
		p.VariantBudget = 32
		p.NestedBudget = 4
		p.NestedPoints = 6
		p.NestedEvery = 4
		p.ExhaustiveMax = 5
		p.PointStride = 1
	}
	if id == "C02" {
		p.RetryPrefix = true
	}
	if c.Replay != "" {
		replayCrash(c, p)
		return
	}
	eng := &crashsim.Engine{C: c, P: p}
	w := crashsim.Profiles[cfg.profile]
	jobs := make(chan int)
	var wg sync.WaitGroup
	for i := 0; i < p.Workers; i++ {
		wg.Add(1)
		go func() {
			defer wg.Done()
			for j := range jobs {
				wl := crashsim.Generate(w, c.Seed, j)
				if j < 2 {
					c.Sample(map[string]any{"workload": j, "seg_size": wl.SegSize, "ops": genBrief(wl)})
				}
				eng.RunWorkload(wl)
			}
		}()
	}
	for j := 0; j < n; j++ {
		jobs <- j
	}
	close(jobs)
	wg.Wait()
	if id == "C13" {
		c13Pinning(c)
		c13FailedCreate(c)
		c13Concurrent(c)
	}
	if id == "C04" {
		c04FailedTruncations(c)
	}
	if id == "C02" {
		c02DirectedChains(c)
	}
	if id == "C01" || id == "C03" || id == "C04" || id == "C13" {
		// power-loss images of the production stack (real fs, real BoltDB) replayed from strace
		if quick(c) {
			replayPart(c, 3, 24, 2, "log")
			if id == "C01" {
				// every third fsync of the main thread fails, in all three phases (period 2 would
				// make a retried first Sync fail for ever); the first few are spared so that Open succeeds
				replayPart(c, 1, 24, 1, "log;inject=fsync:error=EIO:when=4+3")
				replayPart(c, 1, 24, 1, "log;inject=fsync:error=EIO:when=5+3")
				replayPart(c, 1, 24, 1, "log;inject=fsync:error=ENOSPC:when=6+3")
			}
		} else {
			replayPart(c, 16, 70, 1, "log")
			if id == "C01" {
				for _, inj := range []string{"fsync:error=EIO:when=4+3", "fsync:error=EIO:when=5+3", "fsync:error=ENOSPC:when=6+3", "fsync:error=EIO:when=5+4", "fsync:error=EIO:when=7+5", "pwrite64:error=EIO:when=9+4", "fdatasync:error=EIO:when=6+3", "fallocate:error=ENOSPC:when=2+2"} {
					replayPart(c, 2, 50, 1, "log;inject="+inj)
				}
			}
		}
	}
	c.Extra("behaviour_calibrated", crashsim.BehaviourUsed())
	c.Extra("params", p)
}

// replayCrash re-runs the single case stored in a replay file.
func replayCrash(c *evid.Ctx, p crashsim.Params) {
	b, err := os.ReadFile(c.Replay)
	if err != nil {
		fmt.Println("HARNESS-ERROR cannot read replay file:", err)
		os.Exit(2)
	}
	var gen struct {
		Case struct {
			Seed *int64 `json:"seed"`
			Ops  int    `json:"ops"`
			Mix  string `json:"mix"`
		} `json:"case"`
	}
	if json.Unmarshal(b, &gen) == nil && gen.Case.Seed != nil && gen.Case.Ops > 0 {
		// a power-loss image replayed from a syscall trace: re-run that traced scenario
		c.Sample(map[string]any{"replay": c.Replay})
		replayScenario(c, *gen.Case.Seed, gen.Case.Ops, 1, gen.Case.Mix)
		c.Distinct(c.DistinctKey(), "replay-a")
		c.Distinct(c.DistinctKey(), "replay-b")
		return
	}
	var rf struct {
		Case struct {
			Workload *crashsim.Workload              `json:"workload"`
			Crash1   *struct{ Call, Variant string } `json:"crash1"`
			Crash2   *struct{ Call, Variant string } `json:"crash2"`
		} `json:"case"`
	}
	if err := json.Unmarshal(b, &rf); err != nil || rf.Case.Workload == nil {
		fmt.Println("HARNESS-ERROR replay file has no crashsim case:", err)
		os.Exit(2)
	}
	if rf.Case.Crash1 != nil {
		p.Only = append(p.Only, crashsim.OnlySel{Call: rf.Case.Crash1.Call, Variant: rf.Case.Crash1.Variant})
		if rf.Case.Crash2 != nil {
			p.Only = append(p.Only, crashsim.OnlySel{Call: rf.Case.Crash2.Call, Variant: rf.Case.Crash2.Variant})
		}
	}
	p.Workers = 1
	eng := &crashsim.Engine{C: c, P: p}
	c.Sample(map[string]any{"replay": c.Replay})
	eng.RunWorkload(rf.Case.Workload)
	c.Distinct(c.DistinctKey(), "replay-a")
	c.Distinct(c.DistinctKey(), "replay-b")
}
